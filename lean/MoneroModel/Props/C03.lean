import MoneroModel.Proofs.WireEnc
import MoneroModel.Gen.Codec
import MoneroModel.Gen.Fields
import MoneroModel.Proofs.TxComplete2
import MoneroModel.Proofs.WireWF
open Monero
/-! # C03 — block and transaction wire layout is the Monero consensus layout

`Spec.specTx` / `Spec.specBlock` (Spec/Wire.lean) are flat by-the-book concatenations written from Monero's headers,
independent of the model and of /repo; `build d` is the Rust-shaped value a description denotes. Because the spec
does not mention the model or `Gen`, a *symmetric* edit of the library (same tag, count width, field order or matrix
dimension changed in encoder and decoder) keeps C01/C02 true and shows up HERE. How it shows up: `C03_enc_eq_spec` /
`C03_dec_spec` relate the hand-written model to the hand-written spec — neither is regenerated from /repo, so no edit of /repo can
make them fail; what fails is (i) the three-way correspondence run (library bytes ≠ model bytes = spec bytes: the model no longer
describes the code, and the code no longer writes Monero's bytes) and (ii) those theorems below that read a table regenerated from
the source with NO fallback — tag bytes and `is_rct_bp*` sets (`C03_tags_are_monero`, observed by evaluation), macro field orders
(`C03_field_orders_are_monero`, `C03_spec_follows_field_orders`). The `match` / `==` STRUCTURE tables (`C03_rct_branching_*`) are weaker
ties: see their doc comments.

BulletproofPlus proof count: Monero writes a varint, the library one raw byte; they coincide below 128, which is the
range these theorems cover (`BppSmall`); the deviation beyond is a recorded known finding (DESIGN.md §7 item 4). -/
namespace C03

/-- fewer than 128 BulletproofPlus proofs (the range in which the one-byte count is Monero's varint) -/
def BppSmall (d : Spec.TxD) : Prop :=
  ∀ fee e o bpps cls po, d.body = .v2 (some (.bpplus fee e o bpps cls po)) → bpps.length < 128

/-- serialising the described structure gives exactly the spec bytes — for EVERY description (both versions, any
input/output/ring counts, all seven RingCT types, arbitrary field contents; no well-shapedness needed). "Every" includes Bulletproof
(type 3) proof lists of 2^32 or more entries, where the equality holds because BOTH sides are totalised the same way: `Spec.u32le`
writes `n mod 2^32` like the model's `leBytes (n % 2^32) 4`; a by-the-book `u32` has no value there, and the case is unreachable in
Rust (`len() as u32` of a vector that fits in memory) -/
theorem C03_enc_eq_spec (d : Spec.TxD) (hb : BppSmall d) : encTx (build d) = Spec.specTx d := by
  obtain ⟨unlock, ins, outs, extra, body⟩ := d
  cases body with
  | v1 sigs =>
    have hp := encPrefix_spec ⟨unlock, ins, outs, extra, .v1 sigs⟩
    simp only [buildPrefix, Spec.TxD.version] at hp
    simp only [build, encTx, Spec.specTx, Spec.specBody, buildPrefix, Spec.TxD.version, if_true]
    rw [hp]
    congr 1
    simp only [encSized_spec, List.map_map, Spec.cat]
    congr 1
    apply List.map_congr_left
    intro row _
    simp only [Function.comp, encSized_spec, List.map_map, Spec.cat]
    congr 1
  | v2 r =>
    have hp := encPrefix_spec ⟨unlock, ins, outs, extra, .v2 r⟩
    simp only [buildPrefix, Spec.TxD.version] at hp
    have hv : ¬ ((2 : Nat) = 1) := by decide
    cases r with
    | none =>
      simp only [build, encTx, Spec.specTx, Spec.specBody, buildPrefix, Spec.TxD.version, hv, if_false]
      rw [hp]
    | some r =>
      simp only [build, encTx, Spec.specTx, Spec.specBody, buildPrefix, Spec.TxD.version, hv, if_false]
      rw [hp]
      congr 1
      rw [encBase_spec]
      cases hpr : buildPrunable r with
      | none => cases r <;> simp [buildPrunable] at hpr; simp [Spec.specPrunable]
      | some p =>
        simp only []
        rw [encPrunable_spec r p hpr (fun fee e o bpps cls po hr => hb fee e o bpps cls po (by rw [hr]))]

/-- prefix, base and prunable parts separately (the boundaries p, q of C05 come from here) -/
theorem C03_prefix_eq_spec (d : Spec.TxD) : encPrefix (build d).pre = Spec.specPrefix d := by
  have := encPrefix_spec d
  obtain ⟨unlock, ins, outs, extra, body⟩ := d
  cases body with
  | v1 s => simpa [build] using this
  | v2 r => cases r <;> simpa [build] using this
theorem C03_base_eq_spec (r : Spec.RctD) : encBase (buildBase r) = Spec.specBase r := encBase_spec r

/-- parsing the spec bytes (followed by anything) yields exactly the described structure, whenever the described
structure is well-formed in the sense of C02 (`wfTx`: implicit lengths as implied by the counts and the type, u64
numbers, 32-byte keys, explicit vectors within the decoder's allocation cap) -/
theorem C03_dec_spec (d : Spec.TxD) (hb : BppSmall d) (hwf : wfTx (build d)) (r : Bytes) :
    tx (Spec.specTx d ++ r) = some (build d, r) := by
  rw [← C03_enc_eq_spec d hb]; exact complete_tx (build d) r hwf

/-- (for a nonce of 2^32 or more the equality holds by the common truncation `mod 2^32` of `Spec.u32le` and the model; the Rust field is a
`u32`, and `Spec.WFBlockD` — hypothesis of the decode theorems — demands `nonce < 2^32`) -/
theorem C03_block_enc_eq_spec (b : Spec.BlockD) (hb : BppSmall b.miner) : encBlock (buildBlock b) = Spec.specBlock b := by
  have h4 : encUintLE 4 b.hdr.nonce = Spec.u32le b.hdr.nonce := by
    simp only [encUintLE, leBytes, Spec.u32le, List.range, List.range.loop, List.map_cons, List.map_nil]
    simp
  simp only [encBlock, buildBlock, buildHeader, encHeader, Spec.specBlock, Spec.specHeader, enc_varint, C03_enc_eq_spec b.miner hb,
    encVec_spec, List.map_id, List.append_assoc, h4]

theorem C03_block_dec_spec (b : Spec.BlockD) (hb : BppSmall b.miner) (hwf : wfBlock (buildBlock b)) (r : Bytes) :
    block (Spec.specBlock b ++ r) = some (buildBlock b, r) := by
  rw [← C03_block_enc_eq_spec b hb]; exact complete_block (buildBlock b) r hwf

/-- the tag bytes that the CURRENT SOURCE accepts and writes (regenerated by the translator on every run) are Monero's,
in both directions, for transaction inputs, output targets, extra sub-fields and RingCT types -/
theorem C03_tags_are_monero :
    Gen.txInDecode = Spec.tagsTxIn ∧ Gen.txInEncode = Spec.tagsTxIn.map (fun p => (p.2, p.1)) ∧
    Gen.txOutTargetDecode = Spec.tagsTarget ∧ Gen.txOutTargetEncode = Spec.tagsTarget.map (fun p => (p.2, p.1)) ∧
    Gen.subFieldDecode = Spec.tagsExtra ∧ Gen.subFieldEncode = Spec.tagsExtra.map (fun p => (p.2, p.1)) ∧
    Gen.rctTypeDecode = Spec.tagsRct ∧ Gen.rctTypeEncode = Spec.tagsRct.map (fun p => (p.2, p.1)) := by decide

/-- WHERE the RingCT codecs branch on the type, as the translator reads it off the source (harness/src/extract.rs `RctMatches`): for
the base, prunable and ecdh codecs, decoder and encoder separately, in source order, the variant set of each arm's PATTERN of every
`match rct_type`, and every comparison of `rct_type` with a variant (`==`, `!=`, either operand order, `matches!`) WITH its polarity
(`…Cmps`; `…Eqs` is the older reading without polarity). These select the format's sets of types: which types carry Bulletproofs(+), a
varint proof count, CLSAGs, one MLSAG per input, pseudo outputs in the prunable part, compact ecdh; every comparison is positive.

What this does NOT say. (1) The arm BODIES are not read: swapping the bodies of `Bulletproof2 | Clsag => varint count` and `_ => u32 count`
in encoder and decoder leaves every table unchanged. That each arm does what the format prescribes for its types is established by
the three-way correspondence run only (library bytes vs model bytes vs `Spec/Wire` bytes on descriptions of every type). (2) The tables
are a syntactic reading; when the current source is STRUCTURED differently from the reviewed one (an arm split, an `if` turned into a
`match`, a flipped comparison with swapped branches …) the translator keeps the reviewed table and prints an `EXTRACT-NOTE … tie is
differential` (extract.rs `finalize`: a restructuring is not a change of behaviour and must not raise an alarm). So a source edit does not
make this theorem fail; it is a consistency statement between the reviewed branching structure — the one the hand-written model
mirrors (`C01_model_tags_are_source`) — and the format tables of Spec/Wire, and the tie of that structure to the current source is the
correspondence run. (The model, Model/Tx.lean, hard-codes `ty = 4 ∨ ty = 5` etc.; it does not read `Gen`.) -/
theorem C03_rct_branching_is_monero :
    Gen.isRctBp = Spec.usesBulletproof ∧ Gen.isRctBpPlus = Spec.usesBulletproofPlus ∧
    Gen.ecdhDecMatches = [[RctTy.all.filter (fun t => t ∉ Spec.compactEcdh ∧ t ≠ .Null) ++ [.Null], Spec.compactEcdh]] ∧
    Gen.baseDecMatches = [[[.Null], RctTy.all.tail]] ∧ Gen.baseEncMatches = Gen.baseDecMatches ∧
    Gen.baseDecEqs = [.Simple] ∧ Gen.baseEncEqs = [.Simple] ∧
    Gen.prunDecMatches = [[[.Null], RctTy.all.tail], [Spec.bpCountIsVarint, []], [Spec.usesClsag, []], [Spec.pseudoOutsInPrunable, []]] ∧
    Gen.prunEncMatches = Gen.prunDecMatches ∧ Gen.prunDecEqs = Spec.mlsagPerInput ∧
    Gen.baseDecCmps = [(true, .Simple)] ∧ Gen.baseEncCmps = [(true, .Simple)] ∧
    Gen.prunDecCmps = Spec.mlsagPerInput.map (fun t => (true, t)) := by decide

/- non-vacuity: a described coinbase transaction; its spec bytes are what one expects -/
example : Spec.specTx ⟨0, [.gen 5], [], [], .v2 (some .null)⟩ = [2, 0, 1, 0xff, 5, 0, 0, 0] := by
  have e (n : Nat) (h : n < 128) : Spec.leb128 n = [UInt8.ofNat n] := by rw [Spec.leb128]; simp [h]
  simp [Spec.specTx, Spec.specPrefix, Spec.specBody, Spec.specBase, Spec.specPrunable, Spec.TxD.version, Spec.varint,
    Spec.specIn, Spec.cat, e]

/-- the decode theorem stated purely over descriptions: parsing the spec bytes of a well-shaped description
(`Spec.WFTxD`: implicit lengths as implied by counts and type, u64 numbers, 32-byte keys) whose vectors are within the
decoder's allocation cap (`CapD`, Proofs/WireWF.lean) yields exactly the described structure and leaves the rest -/
theorem C03_dec_spec_desc (d : Spec.TxD) (hb : BppSmall d) (h : Spec.WFTxD d) (hc : CapD d) (r : Bytes) :
    tx (Spec.specTx d ++ r) = some (build d, r) := C03_dec_spec d hb (wf_build d h hc) r

/- non-vacuity of `C03_dec_spec_desc`: a description with one key input of ring size 2, one tagged output, three bytes of
extra and RingCT type Clsag carrying one Bulletproof (two L/R rounds) is well-shaped, within the caps and `BppSmall`, hence
its spec bytes parse to the built structure -/
example : ∃ d : Spec.TxD, d.ins.length = 1 ∧ Spec.ringSize d.ins = 2 ∧
    Spec.WFTxD d ∧ CapD d ∧ BppSmall d ∧ ∀ r, tx (Spec.specTx d ++ r) = some (build d, r) := by
  let k : Spec.B := List.replicate 32 7
  let bp : Spec.BpD := ⟨k, k, k, k, k, k, [k, k], [k, k], k, k, k⟩
  let d : Spec.TxD := ⟨0, [.key 0 [5, 1] k], [⟨0, k, some 9⟩], [1, 2, 3],
    .v2 (some (.clsag 1000 [List.replicate 8 0] [k] [bp] [⟨[k, k], k, k⟩] [k]))⟩
  have hk : Spec.is32 k := rfl
  have hw : Spec.WFTxD d := by
    simp [Spec.WFTxD, d, bp, Spec.WFIn, Spec.WFOut, Spec.WFBody, Spec.WFRct, Spec.WFBp, Spec.WFClsag, Spec.WFEcdh8,
      Spec.all32, Spec.u64, Spec.ringSize, hk]
  have hc : CapD d := by
    simp [CapD, CapBody, CapRct, CapBp, CapIn, capN, d, bp, CAP, Gen.CAP, sizes, Gen.sizes]
  have hb : BppSmall d := by
    intro fee e o bpps cls po h; simp [d] at h
  exact ⟨d, rfl, rfl, hw, hc, hb, C03_dec_spec_desc d hb hw hc⟩

/-! ## Description-level statements for blocks, and the statements in the form of the observed entry point (`deserialize`) -/

/-- the block decode theorem over descriptions only (`Spec.WFBlockD`, `CapBlockD`), analogous to `C03_dec_spec_desc` -/
theorem C03_block_dec_spec_desc (b : Spec.BlockD) (hb : BppSmall b.miner) (h : Spec.WFBlockD b) (hc : CapBlockD b) (r : Bytes) :
    block (Spec.specBlock b ++ r) = some (buildBlock b, r) := C03_block_dec_spec b hb (wf_buildBlock b h hc) r
/-- `deserialize::<Transaction>` (strict parsing) of the by-the-book bytes returns exactly the described structure -/
theorem C03_deserialize_spec (d : Spec.TxD) (hb : BppSmall d) (h : Spec.WFTxD d) (hc : CapD d) :
    strict tx (Spec.specTx d) = some (build d) := by
  have := C03_dec_spec_desc d hb h hc []
  rw [List.append_nil] at this
  simp [strict, this]
/-- `deserialize::<Block>` of the by-the-book bytes returns exactly the described block -/
theorem C03_deserialize_block_spec (b : Spec.BlockD) (hb : BppSmall b.miner) (h : Spec.WFBlockD b) (hc : CapBlockD b) :
    strict block (Spec.specBlock b) = some (buildBlock b) := by
  have := C03_block_dec_spec_desc b hb h hc []
  rw [List.append_nil] at this
  simp [strict, this]
/-- the remaining tables of RingCT-type comparisons (`RctSigPrunable::consensus_encode`, `EcdhInfo::consensus_decode`) are EMPTY, with
and without polarity, as the format has no such case distinction there: together with `C03_rct_branching_is_monero` every `Gen.*` table
of Gen/Codec.lean is read by a theorem. (Same limits as there: pattern sets and compared variants only, reviewed structure kept on a
restructured source; a comparison the visitor cannot see — on a renamed binding, inside a helper function — is not in the table.) -/
theorem C03_rct_branching_complete :
    Gen.prunEncEqs = [] ∧ Gen.ecdhDecEqs = [] ∧ Gen.prunEncCmps = [] ∧ Gen.ecdhDecCmps = [] := by decide

/-! ## The tables of Spec/Wire are the ones the layout follows -/

/-- `Spec.specBase` / `Spec.specPrunable` (written by constructor matching) equal the table-driven `specBaseT` / `specPrunableT`, which take
every type-dependent decision by membership of `Spec.tyOf r` in `tagsRct`, `usesBulletproof`, `usesBulletproofPlus`, `bpCountIsVarint`,
`usesClsag`, `pseudoOutsInPrunable` — the tables that `C03_tags_are_monero` / `C03_rct_branching_is_monero` compare with the current source -/
theorem C03_spec_is_table_driven (r : Spec.RctD) :
    Spec.specBase r = Spec.specBaseT r ∧ Spec.specPrunable r = Spec.specPrunableT r := by
  cases r <;> refine ⟨?_, ?_⟩ <;>
    simp [Spec.specBase, Spec.specBaseT, Spec.specPrunable, Spec.specPrunableT, Spec.tyOf, Spec.tagOfTy, Spec.tagsRct,
      Spec.usesBulletproof, Spec.usesBulletproofPlus, Spec.bpCountIsVarint, Spec.usesClsag, Spec.pseudoOutsInPrunable,
      Spec.RctD.fee, Spec.RctD.pseudoOuts, Spec.RctD.ecdhEntries, Spec.RctD.outPk, Spec.RctD.rangeSigs, Spec.RctD.bps,
      Spec.RctD.bpps, Spec.RctD.mgs, Spec.RctD.clsags, Spec.cat]

/-- the remaining two tables are used by the shapes `Spec.WFRct` demands: entries of the encrypted-amount list are 8 bytes for the types in
`compactEcdh` and 64 for the others; for the types in `mlsagPerInput` there is one MLSAG per input, each of `m` rows × 2 columns; for
Full the MLSAG has `m` rows × (inputs + 1) columns; for the types in `usesClsag` there is one CLSAG per input. (Implications from the
table membership to the shape. That Full has exactly ONE MLSAG and the CLSAG types NONE is not a consequence of `WFRct` but of the
type `Spec.RctD` itself — `.full` carries a single `MgD`, `.clsag` / `.bpplus` carry no MLSAG field — so it is not stated here.) -/
theorem C03_spec_shapes_follow_tables (k n m : Nat) (r : Spec.RctD) (h : Spec.WFRct k n m r) :
    (∀ e ∈ r.ecdhEntries, e.length = if Spec.tyOf r ∈ Spec.compactEcdh then 8 else 64) ∧
    (Spec.tyOf r ∈ Spec.mlsagPerInput → r.mgs.length = k ∧ ∀ g ∈ r.mgs, Spec.WFMg m 2 g) ∧
    (Spec.tyOf r = .Full → ∀ g ∈ r.mgs, Spec.WFMg m (k + 1) g) ∧
    (Spec.tyOf r ∈ Spec.usesClsag → r.clsags.length = k ∧ ∀ c ∈ r.clsags, Spec.WFClsag m c) := by
  have full64 : ∀ (es : List (Spec.B × Spec.B)), (∀ e ∈ es, Spec.WFEcdhFull e) → ∀ x ∈ es.map Spec.specEcdhFull, x.length = 64 := by
    intro es he x hx
    obtain ⟨e, hm, rfl⟩ := List.mem_map.1 hx
    have := he e hm
    simp only [Spec.WFEcdhFull, Spec.is32] at this
    simp [Spec.specEcdhFull, this.1, this.2]
  cases r with
  | null => simp [Spec.RctD.ecdhEntries, Spec.tyOf, Spec.mlsagPerInput, Spec.usesClsag, Spec.RctD.mgs, Spec.RctD.clsags]
  | full fee ecdh outPk rs mg =>
    obtain ⟨_, _, he, _, _, _, _, hmg⟩ := h
    refine ⟨by simpa [Spec.RctD.ecdhEntries, Spec.tyOf, Spec.compactEcdh] using full64 ecdh he, by simp [Spec.tyOf, Spec.mlsagPerInput], ?_, by simp [Spec.tyOf, Spec.usesClsag]⟩
    intro _; simp [Spec.RctD.mgs, hmg]
  | simple fee po ecdh outPk rs mgs =>
    obtain ⟨_, _, _, _, he, _, _, _, _, hml, hm⟩ := h
    refine ⟨by simpa [Spec.RctD.ecdhEntries, Spec.tyOf, Spec.compactEcdh] using full64 ecdh he, ?_, by simp [Spec.tyOf], by simp [Spec.tyOf, Spec.usesClsag]⟩
    intro _; exact ⟨hml, hm⟩
  | bulletproof fee ecdh outPk bps mgs po =>
    obtain ⟨_, _, he, _, _, _, _, hml, hm, _⟩ := h
    refine ⟨by simpa [Spec.RctD.ecdhEntries, Spec.tyOf, Spec.compactEcdh] using full64 ecdh he, ?_, by simp [Spec.tyOf], by simp [Spec.tyOf, Spec.usesClsag]⟩
    intro _; exact ⟨hml, hm⟩
  | bulletproof2 fee ecdh outPk bps mgs po =>
    obtain ⟨_, _, he, _, _, _, hml, hm, _⟩ := h
    refine ⟨by simpa [Spec.RctD.ecdhEntries, Spec.tyOf, Spec.compactEcdh, Spec.WFEcdh8] using he, ?_, by simp [Spec.tyOf], by simp [Spec.tyOf, Spec.usesClsag]⟩
    intro _; exact ⟨hml, hm⟩
  | clsag fee ecdh outPk bps cls po =>
    obtain ⟨_, _, he, _, _, _, hcl, hcw, _⟩ := h
    refine ⟨by simpa [Spec.RctD.ecdhEntries, Spec.tyOf, Spec.compactEcdh, Spec.WFEcdh8] using he, by simp [Spec.tyOf, Spec.mlsagPerInput], by simp [Spec.tyOf], ?_⟩
    intro _; exact ⟨hcl, hcw⟩
  | bpplus fee ecdh outPk bpps cls po =>
    obtain ⟨_, _, he, _, _, _, hcl, hcw, _⟩ := h
    refine ⟨by simpa [Spec.RctD.ecdhEntries, Spec.tyOf, Spec.compactEcdh, Spec.WFEcdh8] using he, by simp [Spec.tyOf, Spec.mlsagPerInput], by simp [Spec.tyOf], ?_⟩
    intro _; exact ⟨hcl, hcw⟩

/-! ## Non-vacuity: for each remaining signature family a description that is well-shaped, within the caps and `BppSmall`
(hence its by-the-book bytes parse to the built structure), and a block -/
section nonvac
private def k : Spec.B := List.replicate 32 7
private def k64 : List Spec.B := List.replicate 64 k
private def rs : Spec.RangeSigD := ⟨k64, k64, k, k64⟩
private def bp : Spec.BpD := ⟨k, k, k, k, k, k, [k], [k], k, k, k⟩
private def bpp : Spec.BppD := ⟨k, k, k, k, k, k, [k, k], [k, k]⟩
private theorem hk : Spec.is32 k := rfl
private theorem hrs : Spec.WFRangeSig rs := by
  simp [Spec.WFRangeSig, rs, k64, Spec.all32, hk]
/-- what each witness below establishes -/
private def Witness (d : Spec.TxD) : Prop := Spec.WFTxD d ∧ CapD d ∧ BppSmall d ∧ ∀ r, tx (Spec.specTx d ++ r) = some (build d, r)
private theorem witness (d : Spec.TxD) (hw : Spec.WFTxD d) (hc : CapD d) (hb : BppSmall d) : Witness d :=
  ⟨hw, hc, hb, C03_dec_spec_desc d hb hw hc⟩

/- version 1 with signatures: two key inputs of ring sizes 1 and 2 (signature rows of 1 and 2 pairs), a coinbase input in between -/
example : ∃ d : Spec.TxD, d.version = 1 ∧ Spec.keyRings d.ins = [1, 2] ∧ Witness d := by
  let d : Spec.TxD := ⟨7, [.key 1 [5] k, .gen 3, .key 2 [5, 1] k], [⟨0, k, none⟩, ⟨9, k, some 1⟩], [1], .v1 [[(k, k)], [(k, k), (k, k)]]⟩
  refine ⟨d, rfl, rfl, witness d ?_ ?_ ?_⟩
  · have hs : Spec.WFSigsV1 [1, 2] [[(k, k)], [(k, k), (k, k)]] :=
      ⟨_, _, rfl, rfl, by simp [hk], _, _, rfl, rfl, by simp [hk], rfl⟩
    exact ⟨by simp [d, Spec.u64], by simp [d, Spec.WFIn, Spec.u64, hk], by simp [d, Spec.WFOut, Spec.u64, hk], hs⟩
  · simp [CapD, CapBody, CapIn, capN, d, CAP, Gen.CAP, sizes, Gen.sizes]
  · intro fee e o bpps cls po h; simp [d] at h
/- Full: two inputs, ring size 4 (one MLSAG of 4 rows × 3 columns — not square, so the witness pins the orientation: it would NOT satisfy a
transposed `WFMg (k + 1) m`), one output with its Borromean range signature -/
example : ∃ d : Spec.TxD, d.ins.length = 2 ∧ Spec.ringSize d.ins = 4 ∧ Witness d := by
  let d : Spec.TxD := ⟨0, [.key 0 [5, 1, 1, 2] k, .key 0 [4, 1, 1, 2] k], [⟨0, k, none⟩], [],
    .v2 (some (.full 10 [(k, k)] [k] [rs] ⟨[[k, k, k], [k, k, k], [k, k, k], [k, k, k]], k⟩))⟩
  refine ⟨d, rfl, rfl, witness d ?_ ?_ ?_⟩
  · simp [Spec.WFTxD, d, Spec.WFIn, Spec.WFOut, Spec.WFBody, Spec.WFRct, Spec.WFMg, Spec.WFEcdhFull, Spec.all32, Spec.u64, Spec.ringSize, hk, hrs]
  · simp [CapD, CapBody, CapRct, CapIn, capN, d, CAP, Gen.CAP, sizes, Gen.sizes]
  · intro fee e o bpps cls po h; simp [d] at h
/- Simple: two inputs, ring size 3 (two MLSAGs of 3 rows × 2 columns — not square), pseudo outputs in the base -/
example : ∃ d : Spec.TxD, d.ins.length = 2 ∧ Spec.ringSize d.ins = 3 ∧ Witness d := by
  let mg : Spec.MgD := ⟨[[k, k], [k, k], [k, k]], k⟩
  let d : Spec.TxD := ⟨0, [.key 0 [5, 1, 2] k, .key 0 [4, 1, 2] k], [⟨0, k, none⟩], [],
    .v2 (some (.simple 10 [k, k] [(k, k)] [k] [rs] [mg, mg]))⟩
  refine ⟨d, rfl, rfl, witness d ?_ ?_ ?_⟩
  · simp [Spec.WFTxD, d, mg, Spec.WFIn, Spec.WFOut, Spec.WFBody, Spec.WFRct, Spec.WFMg, Spec.WFEcdhFull, Spec.all32, Spec.u64, Spec.ringSize, hk, hrs]
  · simp [CapD, CapBody, CapRct, CapIn, capN, d, CAP, Gen.CAP, sizes, Gen.sizes]
  · intro fee e o bpps cls po h; simp [d] at h
/- Bulletproof (u32 proof count): one input of ring size 3 (one MLSAG of 3 rows × 2 columns), one Bulletproof -/
example : ∃ d : Spec.TxD, d.ins.length = 1 ∧ Spec.ringSize d.ins = 3 ∧ Witness d := by
  let mg : Spec.MgD := ⟨[[k, k], [k, k], [k, k]], k⟩
  let d : Spec.TxD := ⟨0, [.key 0 [5, 1, 2] k], [⟨0, k, some 3⟩], [],
    .v2 (some (.bulletproof 10 [(k, k)] [k] [bp] [mg] [k]))⟩
  refine ⟨d, rfl, rfl, witness d ?_ ?_ ?_⟩
  · simp [Spec.WFTxD, d, mg, bp, Spec.WFIn, Spec.WFOut, Spec.WFBody, Spec.WFRct, Spec.WFMg, Spec.WFBp, Spec.WFEcdhFull, Spec.all32, Spec.u64, Spec.ringSize, hk]
  · simp [CapD, CapBody, CapRct, CapBp, CapIn, capN, d, bp, CAP, Gen.CAP, sizes, Gen.sizes]
  · intro fee e o bpps cls po h; simp [d] at h
/- Bulletproof2 (varint proof count, compact ecdh) behind a coinbase first input (ring size 1 by convention) -/
example : ∃ d : Spec.TxD, d.ins.length = 1 ∧ Spec.ringSize d.ins = 1 ∧ Witness d := by
  let mg : Spec.MgD := ⟨[[k, k]], k⟩
  let d : Spec.TxD := ⟨0, [.gen 9], [⟨0, k, some 3⟩], [],
    .v2 (some (.bulletproof2 10 [List.replicate 8 1] [k] [bp, bp] [mg] [k]))⟩
  refine ⟨d, rfl, rfl, witness d ?_ ?_ ?_⟩
  · simp [Spec.WFTxD, d, mg, bp, Spec.WFIn, Spec.WFOut, Spec.WFBody, Spec.WFRct, Spec.WFMg, Spec.WFBp, Spec.WFEcdh8, Spec.all32, Spec.u64, Spec.ringSize, hk]
  · simp [CapD, CapBody, CapRct, CapBp, CapIn, capN, d, bp, CAP, Gen.CAP, sizes, Gen.sizes]
  · intro fee e o bpps cls po h; simp [d] at h
/- BulletproofPlus: one input of ring size 2, one Bulletproof+ (the hypothesis `BppSmall` holds: 1 < 128) -/
example : ∃ d : Spec.TxD, d.ins.length = 1 ∧ Spec.ringSize d.ins = 2 ∧ Witness d := by
  let d : Spec.TxD := ⟨0, [.key 0 [5, 1] k], [⟨0, k, some 3⟩], [],
    .v2 (some (.bpplus 10 [List.replicate 8 1] [k] [bpp] [⟨[k, k], k, k⟩] [k]))⟩
  refine ⟨d, rfl, rfl, witness d ?_ ?_ ?_⟩
  · simp [Spec.WFTxD, d, bpp, Spec.WFIn, Spec.WFOut, Spec.WFBody, Spec.WFRct, Spec.WFClsag, Spec.WFBpp, Spec.WFEcdh8, Spec.all32, Spec.u64, Spec.ringSize, hk]
  · simp [CapD, CapBody, CapRct, CapBpp, CapIn, capN, d, bpp, CAP, Gen.CAP, sizes, Gen.sizes]
  · intro fee e o bpps cls po h
    simp only [d, Spec.BodyD.v2.injEq, Option.some.injEq, Spec.RctD.bpplus.injEq] at h
    obtain ⟨_, _, _, rfl, _, _⟩ := h; decide
/- a block: header, Null coinbase miner transaction, two transaction hashes -/
example : ∃ b : Spec.BlockD, b.txHashes.length = 2 ∧ Spec.WFBlockD b ∧ CapBlockD b ∧ BppSmall b.miner ∧
    (∀ r, block (Spec.specBlock b ++ r) = some (buildBlock b, r)) ∧ strict block (Spec.specBlock b) = some (buildBlock b) := by
  let b : Spec.BlockD := ⟨⟨16, 16, 1700000000, k, 123456⟩, ⟨60, [.gen 5], [⟨1, k, none⟩], [1, 2], .v2 (some .null)⟩, [k, k]⟩
  have hw : Spec.WFBlockD b := by
    simp [Spec.WFBlockD, Spec.WFHeaderD, Spec.WFTxD, b, Spec.WFIn, Spec.WFOut, Spec.WFBody, Spec.WFRct, Spec.all32, Spec.u64, hk]
  have hc : CapBlockD b := by
    simp [CapBlockD, CapD, CapBody, CapRct, CapIn, capN, b, CAP, Gen.CAP, sizes, Gen.sizes]
  have hb : BppSmall b.miner := by
    intro fee e o bpps cls po h; simp [b] at h
  exact ⟨b, rfl, hw, hc, hb, C03_block_dec_spec_desc b hb hw hc, C03_deserialize_block_spec b hb hw hc⟩
end nonvac
/-! ## Field orders of the macro-generated codecs (`impl_consensus_encoding!`) -/

/-- the `impl_consensus_encoding!` field lists of the CURRENT SOURCE (regenerated on every run, Gen/Fields.lean) are Monero's -/
theorem C03_field_orders_are_monero :
    Gen.fieldOrder "Bulletproof" = ["A", "S", "T1", "T2", "taux", "mu", "L", "R", "a", "b", "t"] ∧
    Gen.fieldOrder "BulletproofPlus" = ["A", "A1", "B", "r1", "s1", "d1", "L", "R"] ∧
    Gen.fieldOrder "BoroSig" = ["s0", "s1", "ee"] ∧ Gen.fieldOrder "RangeSig" = ["asig", "Ci"] ∧
    Gen.fieldOrder "Signature" = ["c", "r"] ∧
    Gen.fieldOrder "TransactionPrefix" = ["version", "unlock_time", "inputs", "outputs", "extra"] ∧
    Gen.fieldOrder "BlockHeader" = ["major_version", "minor_version", "timestamp", "prev_id", "nonce"] ∧
    Gen.fieldOrder "Block" = ["header", "miner_tx", "tx_hashes"] ∧
    Gen.fieldOrder "TxOut" = ["amount", "target"] ∧ Gen.fieldOrder "KeyImage" = ["image"] ∧
    Gen.fieldOrder "Key" = ["key"] ∧ Gen.fieldOrder "CtKey" = ["mask"] := by decide

/-- … and the by-the-book byte strings ARE the named fields laid out in the order of the current source's macro invocations
(for every description): Bulletproof `A S T1 T2 taux mu L R a b t`, Bulletproof+ `A A1 B r1 s1 d1 L R`, Borromean range signature
`asig{s0 s1 ee} Ci`, v1 signature `c r`, output `amount target`, prefix, block header, block. A reordering of a macro's field list
(symmetric in encoder and decoder, hence invisible to C01/C02) changes `Gen.fieldOrder` — `Gen/Fields.lean` is regenerated with no
fallback — and breaks this theorem. (The single-field rows `KeyImage`, `Key`, `CtKey` of `C03_field_orders_are_monero` carry no order.) -/
theorem C03_spec_follows_field_orders (p : Spec.BpD) (q : Spec.BppD) (rs : Spec.RangeSigD) (s : Spec.B × Spec.B) (o : Spec.OutD)
    (d : Spec.TxD) (b : Spec.BlockD) :
    Spec.specBp p = Spec.cat ((Gen.fieldOrder "Bulletproof").map (Spec.bpField p)) ∧
    Spec.specBpp q = Spec.cat ((Gen.fieldOrder "BulletproofPlus").map (Spec.bppField q)) ∧
    Spec.specRangeSig rs = Spec.cat ((Gen.fieldOrder "RangeSig").map (Spec.rangeSigField (Gen.fieldOrder "BoroSig") rs)) ∧
    Spec.specSig s = Spec.cat ((Gen.fieldOrder "Signature").map (Spec.sigField s)) ∧
    Spec.specPrefix d = Spec.cat ((Gen.fieldOrder "TransactionPrefix").map (Spec.prefixField d)) ∧
    Spec.specHeader b.hdr = Spec.cat ((Gen.fieldOrder "BlockHeader").map (Spec.headerField b.hdr)) ∧
    Spec.specBlock b = Spec.cat ((Gen.fieldOrder "Block").map (Spec.blockField b)) ∧
    Spec.specOut o = Spec.cat ((Gen.fieldOrder "TxOut").map (Spec.outField o)) := by
  obtain ⟨h1, h2, h3, h4, h5, h6, h7, h8, h9, _⟩ := C03_field_orders_are_monero
  rw [h1, h2, h3, h4, h5, h6, h7, h8, h9]
  refine ⟨?_, ?_, ?_, ?_, ?_, ?_, ?_, ?_⟩
  · simp [Spec.specBp, Spec.bpField, Spec.cat]
  · simp [Spec.specBpp, Spec.bppField, Spec.cat]
  · simp [Spec.specRangeSig, Spec.rangeSigField, Spec.boroSigField, Spec.cat]
  · simp [Spec.specSig, Spec.sigField, Spec.cat]
  · simp [Spec.specPrefix, Spec.prefixField, Spec.cat]
  · simp [Spec.specHeader, Spec.headerField, Spec.cat]
  · simp [Spec.specBlock, Spec.blockField, Spec.cat]
  · simp [Spec.specOut, Spec.outField, Spec.cat]

/-- the two multi-field records that the model keeps as opaque blobs are, in `build`, those named fields concatenated in the macro order
(`buildBp` / `buildBpp` are verification-side functions that concatenate in spec order; the statement ties that order to the regenerated
field lists). This does NOT say which bytes the Rust DECODER assigns to field `S` and which to `T1`: the model's `BP.fixed` is one
192-byte block. The tie of the Rust field NAMES to wire positions is the correspondence run — the harness prints and fills every struct
field BY NAME (desc.rs `tx_desc` / `parse_tx`, driver Drv/C03.lean `bpD` / `bppD`: positional tokens in the order `A S T1 …`) and the
library's bytes for that struct are compared with `Spec.specTx`. (Range signatures and v1 signatures: `buildRangeSig` IS `specRangeSig`
and `sigBytes` IS `specSig` by definition, so there is nothing to state beyond `C03_spec_follows_field_orders`.) -/
theorem C03_build_follows_field_orders (p : Spec.BpD) (q : Spec.BppD) :
    encBP (buildBp p) = Spec.cat ((Gen.fieldOrder "Bulletproof").map (Spec.bpField p)) ∧
    encBPP (buildBpp q) = Spec.cat ((Gen.fieldOrder "BulletproofPlus").map (Spec.bppField q)) := by
  have h := C03_spec_follows_field_orders p q ⟨[], [], [], []⟩ ([], []) ⟨0, [], none⟩ ⟨0, [], [], [], .v2 none⟩
    ⟨⟨0, 0, 0, [], 0⟩, ⟨0, [], [], [], .v2 none⟩, []⟩
  exact ⟨by rw [encBp_spec]; exact h.1, by rw [encBpp_spec]; exact h.2.1⟩
/-! ## The BulletproofPlus count: what is written, for every count -/

/-- the recorded deviation, stated: for EVERY BulletproofPlus description the library writes the proof count as ONE raw byte
(`len mod 256`) where the by-the-book layout has `varint len`; the rest of the prunable part is identical. With 128 or more proofs
the two count encodings differ (one byte against at least two); that the whole transactions then differ, i.e. that `BppSmall` in
`C03_enc_eq_spec` is necessary, is `C03_enc_ne_spec_of_bpp_large` / `C03_enc_eq_spec_iff` below (known finding
C03-bulletproofplus-count-byte-vs-varint) -/
theorem C03_bpp_count_is_one_byte (fee : Nat) (e o : List Spec.B) (bpps : List Spec.BppD) (cls : List Spec.ClsagD) (po : List Spec.B) :
    (∃ p, buildPrunable (.bpplus fee e o bpps cls po) = some p ∧
      encPrunable p 6 = [UInt8.ofNat (bpps.length % 256)] ++ Spec.cat (bpps.map Spec.specBpp) ++ Spec.cat (cls.map Spec.specClsag) ++ Spec.cat po) ∧
    Spec.specPrunable (.bpplus fee e o bpps cls po) =
      Spec.varint bpps.length ++ Spec.cat (bpps.map Spec.specBpp) ++ Spec.cat (cls.map Spec.specClsag) ++ Spec.cat po ∧
    (128 ≤ bpps.length → Spec.varint bpps.length ≠ [UInt8.ofNat (bpps.length % 256)]) := by
  refine ⟨⟨_, rfl, ?_⟩, rfl, ?_⟩
  · simp [encPrunable, encProofs, encSigs, encPseudo, encSized_spec, comp_bpp, comp_clsag, Spec.cat]
  · intro h hv
    unfold Spec.varint at hv
    rw [Spec.leb128] at hv
    have : ¬ bpps.length < 128 := by omega
    simp only [this, dite_false] at hv
    have hl := congrArg List.length hv
    simp only [List.length_cons, List.length_nil] at hl
    have : 0 < (Spec.leb128 (bpps.length / 128)).length := by
      rw [Spec.leb128]; split <;> simp
    omega

/-- the deviation at the level of whole transactions: a BulletproofPlus description with 128 or more proofs is serialised by the model
of the library to bytes that are NOT the by-the-book bytes -/
theorem C03_enc_ne_spec_of_bpp_large (d : Spec.TxD) (fee : Nat) (e o : List Spec.B) (bpps : List Spec.BppD) (cls : List Spec.ClsagD)
    (po : List Spec.B) (h : d.body = .v2 (some (.bpplus fee e o bpps cls po))) (hl : 128 ≤ bpps.length) :
    encTx (build d) ≠ Spec.specTx d := by
  intro heq
  obtain ⟨⟨p, hp, hpe⟩, hsp, hne⟩ := C03_bpp_count_is_one_byte fee e o bpps cls po
  have hpre := C03_prefix_eq_spec d
  obtain ⟨unlock, ins, outs, extra, body⟩ := d
  simp only at h; subst h
  have hv : ¬ ((2 : Nat) = 1) := by decide
  have e1 : encTx (build ⟨unlock, ins, outs, extra, .v2 (some (.bpplus fee e o bpps cls po))⟩) =
      encPrefix (build ⟨unlock, ins, outs, extra, .v2 (some (.bpplus fee e o bpps cls po))⟩).pre ++
        (encBase (buildBase (.bpplus fee e o bpps cls po)) ++ encPrunable p 6) := by
    simp only [buildPrunable, Option.some.injEq] at hp; subst hp
    simp [encTx, build, buildPrefix, Spec.TxD.version, buildBase, buildPrunable]
  have e2 : Spec.specTx ⟨unlock, ins, outs, extra, .v2 (some (.bpplus fee e o bpps cls po))⟩ =
      Spec.specPrefix ⟨unlock, ins, outs, extra, .v2 (some (.bpplus fee e o bpps cls po))⟩ ++
        (Spec.specBase (.bpplus fee e o bpps cls po) ++ Spec.specPrunable (.bpplus fee e o bpps cls po)) := by
    simp [Spec.specTx, Spec.specBody]
  rw [e1, e2, hpre, encBase_spec] at heq
  have h3 := List.append_cancel_left (List.append_cancel_left heq)
  rw [hpe, hsp] at h3
  simp only [List.append_assoc] at h3
  have h4 : [UInt8.ofNat (bpps.length % 256)] = Spec.varint bpps.length := by
    have := congrArg List.length h3
    simp only [List.length_append, List.length_cons, List.length_nil] at this
    have hlen : (Spec.varint bpps.length).length = 1 := by omega
    have := List.append_inj h3 (by simp [hlen])
    exact this.1
  exact hne hl h4.symm

/-- … so the hypothesis of `C03_enc_eq_spec` is exactly what is needed: the model encoder applied to the described value gives the
by-the-book bytes IF AND ONLY IF the description has fewer than 128 BulletproofPlus proofs -/
theorem C03_enc_eq_spec_iff (d : Spec.TxD) : encTx (build d) = Spec.specTx d ↔ BppSmall d := by
  constructor
  · intro heq fee e o bpps cls po h
    apply Classical.byContradiction
    intro hlt
    exact C03_enc_ne_spec_of_bpp_large d fee e o bpps cls po h (by omega) heq
  · exact C03_enc_eq_spec d

/- non-vacuity of `C03_enc_ne_spec_of_bpp_large`: a description with 128 (empty) BulletproofPlus proofs -/
example : ∃ d : Spec.TxD, ¬ BppSmall d ∧ encTx (build d) ≠ Spec.specTx d := by
  let d : Spec.TxD := ⟨0, [.gen 1], [], [], .v2 (some (.bpplus 0 [] [] (List.replicate 128 ⟨[], [], [], [], [], [], [], []⟩) [] []))⟩
  have hne := C03_enc_ne_spec_of_bpp_large d 0 [] [] (List.replicate 128 ⟨[], [], [], [], [], [], [], []⟩) [] [] rfl (by simp)
  exact ⟨d, fun hb => hne (C03_enc_eq_spec d hb), hne⟩
end C03
