import MoneroModel.Proofs.BlockSound
import MoneroModel.Proofs.TxIdCommits
import MoneroModel.Proofs.FixedRecords
import MoneroModel.Proofs.BlockIdCommits
import MoneroModel.Gen.Codec
open Monero
/-! # C01 — parsed consensus data re-serialises to exactly the bytes that were parsed

`Sound enc dec := ∀ b x r, dec b = some (x, r) → b = enc x ++ r`: whatever a decoder accepts, re-encoding the value gives
back exactly the consumed bytes (`r` is the unconsumed rest). Decoders and encoders are *separately written* models of
the separately written Rust decoders and encoders (transaction.rs, ringct.rs, block.rs, encode.rs); the theorems
quantify over every byte string, every version, all seven RingCT types and every count. -/
namespace C01

theorem C01_sound_varint : Sound encVarint varint := sound_varint'
theorem C01_sound_u8 : Sound (fun b => [b]) u8 := sound_u8
/-- 32-byte records (`Key`, `Hash`, `KeyImage`, `CtKey`), `Hash8`, `Signature`, `Key64`, `RangeSig`: fixed-width takes -/
theorem C01_sound_fixed (n : Nat) : Sound id (takeN n) := sound_takeN n
theorem C01_sound_uint (k : Nat) (b : Bytes) (n : Nat) (r : Bytes) (h : uintLE k b = some (n, r)) :
    b = encUintLE k n ++ r := (sound_uintLE k b n r h).1
/-- `Vec<T>` / `Box<[T]>` / `[T]` of any sound element type, with the allocation cap -/
theorem C01_sound_vec {α} (sz : Nat) (e : α → Bytes) (d : Dec α) (hs : Sound e d) : Sound (encVec e) (vec sz d) :=
  sound_vec sz e d hs
/-- `consensus_decode_sized_vec` (count known from context) -/
theorem C01_sound_sized_vec {α} (sz : Nat) (e : α → Bytes) (d : Dec α) (hs : Sound e d) (n : Nat) :
    Sound (encSized e) (sizedVec sz d n) := sound_sized sz e d hs n
theorem C01_sound_string (valid : Bytes → Bool) : Sound encString (stringDec valid) := by
  intro b x r h
  unfold stringDec at h
  obtain ⟨bs, r1, h1, h2⟩ := bind_some h
  split at h2
  · obtain ⟨rfl, rfl⟩ := pure_some h2
    have := sound_vec sizes.u8 (fun b => [b]) u8 sound_u8 _ _ _ h1
    rw [this]
    simp only [encVec, encString, List.append_assoc]
    congr 2
    exact flatten_singletons' bs
  · exact (fail_some h2).elim
theorem C01_sound_txin : Sound encTxIn txin := sound_txin
theorem C01_sound_target : Sound encTarget target := sound_target
theorem C01_sound_txout : Sound encTxOut txout := sound_txout
theorem C01_sound_prefix : Sound encPrefix prefix' := sound_prefix
theorem C01_sound_ecdh (ty : Nat) : Sound encEcdh (ecdh ty) := sound_ecdh ty
theorem C01_sound_bulletproof : Sound encBP bp := sound_bp
theorem C01_sound_bulletproofplus : Sound encBPP bpp := sound_bpp
theorem C01_sound_clsag (m : Nat) : Sound encClsag (clsagDec m) := sound_clsag m
theorem C01_sound_mgsig (cols m : Nat) : Sound encMG (mgDec cols m) := sound_mg cols m
/-- `RctSigBase::consensus_decode(inputs, outputs)` -/
theorem C01_sound_rct_base (i o : Nat) : Sound encBase (base i o) := fun b x r h => (sound_base i o b x r h).1
/-- `RctSigPrunable::consensus_decode(type, inputs, outputs, mixin)`: `None` for Null consumes nothing -/
theorem C01_sound_rct_prunable (ty i o m : Nat) (b : Bytes) (x : Option Prunable) (r : Bytes)
    (h : prunable ty i o m b = some (x, r)) :
    b = (match x with | none => [] | some p => encPrunable p ty) ++ r := by
  rcases sound_prunable ty i o m b x r h with ⟨_, rfl, rfl⟩ | ⟨_, p, rfl, hb⟩
  · rfl
  · exact hb
theorem C01_sound_transaction : Sound encTx tx := sound_tx
theorem C01_sound_header : Sound encHeader header := sound_header
theorem C01_sound_block : Sound encBlock block := sound_block

/-- the tag tables of the CURRENT SOURCE (regenerated on every run) are mutually inverse: every variant is written with
exactly the one byte under which it is accepted — the obligation that a one-sided tag edit (a second accepted tag, a changed
written tag) breaks -/
theorem C01_tag_tables_inverse :
    Gen.txInEncode = Gen.txInDecode.map (fun p => (p.2, p.1)) ∧
    Gen.txOutTargetEncode = Gen.txOutTargetDecode.map (fun p => (p.2, p.1)) ∧
    Gen.subFieldEncode = Gen.subFieldDecode.map (fun p => (p.2, p.1)) ∧
    Gen.rctTypeEncode = Gen.rctTypeDecode.map (fun p => (p.2, p.1)) ∧
    (Gen.txInDecode.map (·.2)).Nodup ∧ (Gen.txOutTargetDecode.map (·.2)).Nodup ∧ (Gen.subFieldDecode.map (·.2)).Nodup ∧
    (Gen.rctTypeDecode.map (·.2)).Nodup ∧ (Gen.rctTypeDecode.map (·.1)).Nodup ∧
    Gen.baseEncMatches = Gen.baseDecMatches ∧ Gen.baseEncEqs = Gen.baseDecEqs ∧ Gen.prunEncMatches = Gen.prunDecMatches := by decide

/-- the statement of the property: `serialise(x) = b[0..n]` with `n` the number of bytes consumed -/
theorem C01_consumed {α} (enc : α → Bytes) (dec : Dec α) (hs : Sound enc dec) (b : Bytes) (x : α) (r : Bytes)
    (h : dec b = some (x, r)) : enc x = b.take (b.length - r.length) ∧ r = b.drop (b.length - r.length) := by
  have := hs b x r h; subst this; simp

/-- no two different byte strings parse (strictly) to the same value -/
theorem C01_injective {α} (enc : α → Bytes) (dec : Dec α) (hs : Sound enc dec) (b1 b2 : Bytes) (x : α)
    (h1 : strict dec b1 = some x) (h2 : strict dec b2 = some x) : b1 = b2 := by
  unfold strict at h1 h2
  split at h1 <;> simp at h1
  split at h2 <;> simp at h2
  rename_i y1 hd1 _ y2 hd2
  subst h1 h2
  have e1 := hs _ _ _ hd1; have e2 := hs _ _ _ hd2
  simp at e1 e2; rw [e1, e2]

/-- and with partial parsing: equal values ⇒ equal consumed prefixes -/
theorem C01_injective_partial {α} (enc : α → Bytes) (dec : Dec α) (hs : Sound enc dec) (b1 b2 : Bytes) (x : α)
    (r1 r2 : Bytes) (h1 : dec b1 = some (x, r1)) (h2 : dec b2 = some (x, r2)) :
    b1.take (b1.length - r1.length) = b2.take (b2.length - r2.length) := by
  rw [← (C01_consumed enc dec hs b1 x r1 h1).1, ← (C01_consumed enc dec hs b2 x r2 h2).1]

/-- every identifier computed from a parsed object by hashing its serialisation commits to the received bytes:
for any function `f` of the serialisation (`H ∘ serialize`), `f (enc x)` is `f` of the consumed bytes -/
theorem C01_ids_commit {α β} (enc : α → Bytes) (dec : Dec α) (hs : Sound enc dec) (f : Bytes → β) (b : Bytes) (x : α)
    (h : strict dec b = some x) : f (enc x) = f b := by
  unfold strict at h
  split at h <;> simp at h
  rename_i y hd; subst h
  have := hs _ _ _ hd; simp at this; rw [this]

/-! ## Added after the audit -/

/-- `RctType` as a stand-alone `Decodable` / `Encodable` (ringct.rs:659-689; `RctSigBase` inlines the same byte), in the model's
representation: a type IS its number, so this is `C01_sound_u8` plus the range check and holds whatever the two match tables of the
source say. The tables themselves are the subject of `C01_sound_rcttype_tables` (Sound of the codec read off the two regenerated
tables) and `C01_rcttype_model_is_table` (this model codec = that table codec, numbered by the encode table). -/
theorem C01_sound_rcttype : Sound encRctType rctType := by
  intro b x r h
  unfold rctType at h
  obtain ⟨t, r1, h1, h2⟩ := bind_some h
  have hb := sound_u8 _ _ _ h1
  split at h2
  · exact (fail_some h2).elim
  · obtain ⟨rfl, rfl⟩ := pure_some h2
    simpa [encRctType] using hb

/-- signed fixed-width integers (`i8 … i64`): the two's-complement residue of the decoded value, little endian, is the
consumed bytes (that the decoded VALUE is the two's-complement reading is compared with the library by the harness, which prints the
value of every primitive; the property itself only needs the bytes) -/
theorem C01_sound_int (k : Nat) (b : Bytes) (v : Int) (r : Bytes) (h : intLE k b = some (v, r)) :
    b = encIntLE k v ++ r := by
  unfold intLE at h
  obtain ⟨n, r1, h1, h2⟩ := bind_some h
  obtain ⟨rfl, rfl⟩ := pure_some h2
  obtain ⟨hb, hn⟩ := sound_uintLE k _ _ _ h1
  have e : ((if n < 256 ^ k / 2 then (n : Int) else (n : Int) - ((256 ^ k : Nat) : Int)) % ((256 ^ k : Nat) : Int)).toNat = n := by
    split
    · rw [Int.emod_eq_of_lt (by omega) (by exact_mod_cast hn)]; simp
    · rw [Int.sub_emod, Int.emod_self, Int.sub_zero, Int.emod_emod_of_dvd _ (Int.dvd_refl _), Int.emod_eq_of_lt (by omega) (by exact_mod_cast hn)]; simp
  unfold encIntLE
  rw [e]; exact hb

/-- `bool` (any non-zero byte decodes to `true`, `true` is written as 1) is NOT a canonical codec: it is outside the property
(`bool` is not reachable from `Block` / `Transaction`), and the harness excludes it from the intrinsic oracle for this reason -/
theorem C01_bool_not_sound : ¬ Sound encBool boolDec := by
  intro h
  have := h [2] true [] (by rfl)
  revert this; decide
/-- … it is sound exactly on the two canonical bytes -/
theorem C01_sound_bool_canonical (t : UInt8) (r : Bytes) (ht : t = 0 ∨ t = 1) (x : Bool) (r' : Bytes)
    (h : boolDec (t :: r) = some (x, r')) : t :: r = encBool x ++ r' := by
  rcases ht with rfl | rfl <;> (simp [boolDec, Monero.bind, u8, pure'] at h; obtain ⟨rfl, rfl⟩ := h; rfl)
example : boolDec [1, 7] = some (true, [7]) := by rfl
example : boolDec [0] = some (false, []) := by rfl
example : (0 : UInt8) :: [7] = encBool false ++ [7] := by rfl

/-- instances of "no two different byte strings parse to the same value" for the concrete record types -/
theorem C01_injective_tx (b1 b2 : Bytes) (t : Tx) (h1 : strict tx b1 = some t) (h2 : strict tx b2 = some t) : b1 = b2 :=
  C01_injective encTx tx sound_tx b1 b2 t h1 h2
theorem C01_injective_block (b1 b2 : Bytes) (x : Block) (h1 : strict block b1 = some x) (h2 : strict block b2 = some x) : b1 = b2 :=
  C01_injective encBlock block sound_block b1 b2 x h1 h2
theorem C01_injective_header (b1 b2 : Bytes) (x : Header) (h1 : strict header b1 = some x) (h2 : strict header b2 = some x) : b1 = b2 :=
  C01_injective encHeader header sound_header b1 b2 x h1 h2
theorem C01_injective_prefix (b1 b2 : Bytes) (x : Prefix) (h1 : strict prefix' b1 = some x) (h2 : strict prefix' b2 = some x) : b1 = b2 :=
  C01_injective encPrefix prefix' sound_prefix b1 b2 x h1 h2
theorem C01_injective_txin (b1 b2 : Bytes) (x : TxIn) (h1 : strict txin b1 = some x) (h2 : strict txin b2 = some x) : b1 = b2 :=
  C01_injective encTxIn txin sound_txin b1 b2 x h1 h2
theorem C01_injective_txout (b1 b2 : Bytes) (x : TxOut) (h1 : strict txout b1 = some x) (h2 : strict txout b2 = some x) : b1 = b2 :=
  C01_injective encTxOut txout sound_txout b1 b2 x h1 h2
example : strict tx [2, 0, 1, 0xff, 5, 0, 0, 0] = some ⟨⟨2, 0, [.gen 5], [], []⟩, [], some ⟨0, 0, [], [], []⟩, none⟩ := by rfl

/-- **The transaction identifier commits to the received bytes** (the clause that `C01_ids_commit` only states for
identifiers of the form `H ∘ serialize`): for the model of `Transaction::hash` (`txHash`, Model/TxHash.lean — version 1:
`H(serialisation)`; otherwise `H(H(prefix) ‖ H(base) ‖ (Null ? 0³² : H(prunable)))`) with an arbitrary 32-byte-valued `H`, two
strictly parsed transactions of the same version class with equal identifiers were parsed from the SAME bytes, or two DIFFERENT
strings — `u` among the strings hashed while computing the first identifier, `v` among those hashed for the second
(`hashed H t`, Proofs/TxIdCommits: at most four explicit strings, given as a function of the parsed transaction) — have the same
hash. (A conclusion "`H` has some collision" would be empty: every function into 32-byte strings has one. And without `hv`
the claim is false: a 96-byte RingCT pre-image can itself be a valid version-1 serialisation — `C01_txid_commits_any_version`.) -/
theorem C01_txid_commits (H : Bytes → Bytes) (hlen : ∀ x, (H x).length = 32) (b1 b2 : Bytes) (t1 t2 : Tx)
    (h1 : tx b1 = some (t1, [])) (h2 : tx b2 = some (t2, []))
    (hv : t1.pre.version = 1 ↔ t2.pre.version = 1) (hid : txHash H t1 = txHash H t2) :
    b1 = b2 ∨ ∃ u ∈ hashed H t1, ∃ v ∈ hashed H t2, u ≠ v ∧ H u = H v := txid_commits H hlen b1 b2 t1 t2 h1 h2 hv hid
/-- the same as an injectivity statement: if `H` is injective on the strings hashed for the two identifiers, equal identifiers
mean equal received bytes -/
theorem C01_txid_injective (H : Bytes → Bytes) (hlen : ∀ x, (H x).length = 32) (b1 b2 : Bytes) (t1 t2 : Tx)
    (h1 : tx b1 = some (t1, [])) (h2 : tx b2 = some (t2, []))
    (hv : t1.pre.version = 1 ↔ t2.pre.version = 1)
    (hinj : ∀ u ∈ hashed H t1, ∀ v ∈ hashed H t2, H u = H v → u = v) (hid : txHash H t1 = txHash H t2) : b1 = b2 := by
  rcases txid_commits H hlen b1 b2 t1 t2 h1 h2 hv hid with h | ⟨u, hu, v, hv', hne, he⟩
  · exact h
  · exact absurd (hinj u hu v hv' he) hne
/-- `hashed H t` is tied to `txHash`: the identifier is the hash of its LAST string, and (version ≠ 1, prunable part present exactly
for the non-Null types — every parsed transaction) that string is the concatenation of the hashes of the strings before it,
followed by 0³² for the Null type -/
theorem C01_txid_is_hash_of_last (H : Bytes → Bytes) (t : Tx) : ∃ u, (hashed H t).getLast? = some u ∧ txHash H t = H u :=
  txHash_eq_hash_last H t
theorem C01_txid_last_is_digests (H : Bytes → Bytes) (t : Tx) (hv : t.pre.version ≠ 1)
    (hp : ∀ b, t.base = some b → b.ty ≠ 0 → t.prun ≠ none) :
    ∃ u, (hashed H t).getLast? = some u ∧
      u = (((hashed H t).dropLast).map H).flatten ++
        (match t.base with | some b => if b.ty = 0 then zeroHash else [] | none => []) := hashed_last_is_digests H t hv hp
example : ∃ t : Tx, t.pre.version ≠ 1 ∧ (∀ b, t.base = some b → b.ty ≠ 0 → t.prun ≠ none) ∧ (t.base.map (·.ty)) = some 4 :=
  ⟨⟨⟨2, 0, [.gen 5], [], []⟩, [], some ⟨4, 0, [], [], []⟩, some ⟨[], [], [], [], [], []⟩⟩, by decide, fun _ _ _ => by simp, rfl⟩
/-- without the hypothesis on the versions exactly one more case exists: the serialisation of the version-1 transaction IS the
32- / 96-byte string of digests hashed last for the other transaction -/
theorem C01_txid_commits_any_version (H : Bytes → Bytes) (hlen : ∀ x, (H x).length = 32) (b1 b2 : Bytes) (t1 t2 : Tx)
    (h1 : tx b1 = some (t1, [])) (h2 : tx b2 = some (t2, [])) (hid : txHash H t1 = txHash H t2) :
    b1 = b2 ∨ (∃ u ∈ hashed H t1, ∃ v ∈ hashed H t2, u ≠ v ∧ H u = H v) ∨
      (t1.pre.version = 1 ∧ t2.pre.version ≠ 1 ∧ (hashed H t2).getLast? = some b1) ∨
      (t2.pre.version = 1 ∧ t1.pre.version ≠ 1 ∧ (hashed H t1).getLast? = some b2) :=
  txid_commits_any_version H hlen b1 b2 t1 t2 h1 h2 hid
/- (1) all five hypotheses of `C01_txid_commits` are jointly satisfiable (constant `H`, one Null-type coinbase transaction twice) -/
example : ∃ (H : Bytes → Bytes) (b1 b2 : Bytes) (t1 t2 : Tx), (∀ x, (H x).length = 32) ∧ tx b1 = some (t1, []) ∧
    tx b2 = some (t2, []) ∧ (t1.pre.version = 1 ↔ t2.pre.version = 1) ∧ txHash H t1 = txHash H t2 :=
  ⟨fun _ => List.replicate 32 0, [2, 0, 1, 0xff, 5, 0, 0, 0], [2, 0, 1, 0xff, 5, 0, 0, 0],
   ⟨⟨2, 0, [.gen 5], [], []⟩, [], some ⟨0, 0, [], [], []⟩, none⟩, ⟨⟨2, 0, [.gen 5], [], []⟩, [], some ⟨0, 0, [], [], []⟩, none⟩,
   fun _ => by simp, by rfl, by rfl, Iff.rfl, rfl⟩
/- (2) the conclusion is not a consequence of `hlen` alone: for `toyH` (32-byte valued) and two DIFFERENT accepted byte strings the
second disjunct is false, i.e. `hinj` of `C01_txid_injective` holds with `b1 ≠ b2` — so the theorem forces different identifiers -/
example : ∃ (b1 b2 : Bytes) (t1 t2 : Tx), (∀ x, (toyH x).length = 32) ∧ tx b1 = some (t1, []) ∧ tx b2 = some (t2, []) ∧
    (t1.pre.version = 1 ↔ t2.pre.version = 1) ∧ b1 ≠ b2 ∧
    (∀ u ∈ hashed toyH t1, ∀ v ∈ hashed toyH t2, toyH u = toyH v → u = v) ∧ txHash toyH t1 ≠ txHash toyH t2 := by
  refine ⟨[2, 0, 1, 0xff, 5, 0, 0, 0], [2, 0, 1, 0xff, 6, 0, 0, 0],
    ⟨⟨2, 0, [.gen 5], [], []⟩, [], some ⟨0, 0, [], [], []⟩, none⟩, ⟨⟨2, 0, [.gen 6], [], []⟩, [], some ⟨0, 0, [], [], []⟩, none⟩,
    toyH_length, by rfl, by rfl, by decide, by decide, by decide +kernel, by decide +kernel⟩
/-- a 32-byte-valued function that sends every 5-byte string to a string that is itself a version-1 serialisation -/
def toyH1 (x : Bytes) : Bytes := if x.length = 5 then [1, 0, 0, 0, 27] ++ List.replicate 27 0 else toyH x
/- (3) without `hv` the claim IS false (so `hv` is not decoration), and the extra case of `C01_txid_commits_any_version` is inhabited: a
version-1 transaction whose 32-byte serialisation is the digest string hashed last for a version-5 transaction — two different accepted
byte strings, equal identifiers, no collision between the hashed strings -/
example : ∃ (H : Bytes → Bytes) (b1 b2 : Bytes) (t1 t2 : Tx), (∀ x, (H x).length = 32) ∧ tx b1 = some (t1, []) ∧ tx b2 = some (t2, []) ∧
    b1 ≠ b2 ∧ txHash H t1 = txHash H t2 ∧ (∀ u ∈ hashed H t1, ∀ v ∈ hashed H t2, H u = H v → u = v) ∧
    t1.pre.version = 1 ∧ t2.pre.version ≠ 1 ∧ (hashed H t2).getLast? = some b1 := by
  refine ⟨toyH1, [1, 0, 0, 0, 27] ++ List.replicate 27 0, [5, 0, 0, 0, 0],
    ⟨⟨1, 0, [], [], List.replicate 27 0⟩, [], none, none⟩, ⟨⟨5, 0, [], [], []⟩, [], none, none⟩, ?_, by rfl, by rfl,
    by decide, by decide +kernel, by decide +kernel, rfl, by decide, by decide +kernel⟩
  intro x; unfold toyH1; split
  · simp
  · exact toyH_length x

/-! ### The block identifier (`Block::id`, block.rs:93-141; model `TreeHash.blockId`, proofs in Proofs/BlockIdCommits)

`Block::id` is not of the form `f ∘ serialize`: it is `H(varint |blob| ‖ blob)`, `blob = header bytes ‖ tree hash of (miner tx id, listed
hashes) ‖ varint (n + 1)`, with the block-202612 substitution (raw hash `correct` ↦ `existing`; the two constants are parameters).
`hashedBlock H x` is the explicit list of strings to which `H` is applied on the way: those of the miner transaction's identifier,
the 64-byte node pairs of the tree (`treeNodes`, the trace of the reference tree hash, which the model of `tree_hash` equals), and
last `blockPre H x = varint |blob| ‖ blob`. -/
open TreeHash in
/-- **The block identifier commits to the received bytes**: two strictly parsed blocks (miner transactions of the same version
class) with equal identifiers were parsed from the SAME bytes, or two DIFFERENT strings — one hashed for the first identifier, one
for the second — have the same hash, or the block-202612 substitution is involved (the raw hash of one block is `correct`, that of
the other `existing`: `Block::id` maps these two raw hashes to one identifier by design — BlockIdCommits.lean has a witness
that this disjunct cannot be dropped). -/
theorem C01_blockid_commits (H : Bytes → Bytes) (hlen : ∀ x, (H x).length = 32) (correct existing : Bytes)
    (b1 b2 : Bytes) (x1 x2 : Block) (p1 : block b1 = some (x1, [])) (p2 : block b2 = some (x2, []))
    (hv : x1.miner.pre.version = 1 ↔ x2.miner.pre.version = 1)
    (hid : blockId H correct existing (encHeader x1.hdr) (txHash H x1.miner) x1.hashes =
           blockId H correct existing (encHeader x2.hdr) (txHash H x2.miner) x2.hashes) :
    b1 = b2 ∨ (∃ u ∈ hashedBlock H x1, ∃ v ∈ hashedBlock H x2, u ≠ v ∧ H u = H v) ∨
    (correct ≠ existing ∧
      ((H (blockPre H x1) = correct ∧ H (blockPre H x2) = existing) ∨
       (H (blockPre H x2) = correct ∧ H (blockPre H x1) = existing))) :=
  blockid_commits H hlen correct existing b1 b2 x1 x2 p1 p2 hv hid
open TreeHash in
/-- `hashedBlock` is tied to `blockId`: the identifier of a parsed block is the hash of the LAST string of the list, up to the substitution -/
theorem C01_blockid_is_hash_of_last (H : Bytes → Bytes) (correct existing : Bytes) (b : Bytes) (x : Block) (r : Bytes)
    (h : block b = some (x, r)) :
    (hashedBlock H x).getLast? = some (blockPre H x) ∧
    blockId H correct existing (encHeader x.hdr) (txHash H x.miner) x.hashes =
      some (if H (blockPre H x) = correct then existing else H (blockPre H x)) := parsed_blockId H correct existing b x r h
open TreeHash in
/-- Merkle injectivity of `tree_hash` (= `Block::tx_root`) for the same number of 32-byte leaves, relative to collisions between the
node pairs hashed in the two trees -/
theorem C01_tree_hash_injective (H : Bytes → Bytes) (hlen : ∀ x, (H x).length = 32) (root1 root2 : Bytes) (extra1 extra2 : List Bytes)
    (hl : extra1.length = extra2.length) (hmax : extra1.length + 1 ≤ 2^28)
    (w1 : ∀ h ∈ root1 :: extra1, h.length = 32) (w2 : ∀ h ∈ root2 :: extra2, h.length = 32)
    (h : treeHash H root1 extra1 = treeHash H root2 extra2) :
    (root1 = root2 ∧ extra1 = extra2) ∨
      ∃ u ∈ treeNodes H (root1 :: extra1), ∃ v ∈ treeNodes H (root2 :: extra2), u ≠ v ∧ H u = H v :=
  treeHash_inj H hlen root1 root2 extra1 extra2 hl hmax w1 w2 h
open TreeHash Spec.TreeHash in
/- non-vacuity (the joint satisfiability of the hypotheses and the necessity of the substitution disjunct are `example`s of
Proofs/BlockIdCommits.lean): for `toyH`, the real 202612 constants and two different accepted blocks (three tree leaves each) the
collision and substitution disjuncts are false — the theorem forces different identifiers -/
example : ∃ (b1 b2 : Bytes) (x1 x2 : Block), (∀ x, (toyH x).length = 32) ∧ block b1 = some (x1, []) ∧ block b2 = some (x2, []) ∧
    (x1.miner.pre.version = 1 ↔ x2.miner.pre.version = 1) ∧ b1 ≠ b2 ∧
    (∀ u ∈ hashedBlock toyH x1, ∀ v ∈ hashedBlock toyH x2, toyH u = toyH v → u = v) ∧
    toyH (blockPre toyH x1) ≠ computedId202612 ∧ toyH (blockPre toyH x2) ≠ computedId202612 ∧
    blockId toyH computedId202612 historicalId202612 (encHeader x1.hdr) (txHash toyH x1.miner) x1.hashes ≠
      blockId toyH computedId202612 historicalId202612 (encHeader x2.hdr) (txHash toyH x2.miner) x2.hashes :=
  ⟨exBytes 1 exHashes, exBytes 2 exHashes, exBlock 1 exHashes, exBlock 2 exHashes, toyH_length, by rfl, by rfl, by decide, by decide,
    by decide +kernel, by decide +kernel, by decide +kernel, by decide +kernel⟩

/-- **Fixed-width records, field by field.** The flat `takeN` models (`C01_sound_fixed`) say nothing about the separately written
Rust element loops; these do: reading n fixed-width elements one after another (`[T; N]` of `impl_array!`, the `Key64` loop) consumes
exactly the bytes of one flat read and the parts concatenate to the flat value; `Signature { c, r }` read as two keys and
`RangeSig { asig: BoroSig { s0, s1, ee }, Ci }` read as 64 + 64 + 1 + 64 keys (Proofs/FixedRecords: `key64S`, `signatureS`,
`boroSigS`, `rangeSigS`, with their own encoders) agree with the flat 64 / 6176-byte models used by the driver, and are sound by themselves. -/
theorem C01_fixed_elementwise (w : Nat) (n : Nat) (b : Bytes) :
    (rep (takeN w) n b).map (fun p => (p.1.flatten, p.2)) = takeN (w * n) b := rep_takeN_flat w n b
theorem C01_key64_elementwise (b : Bytes) : (key64S b).map (fun p => (p.1.flatten, p.2)) = key64 b := key64S_flat b
theorem C01_signature_fieldwise (b : Bytes) : (signatureS b).map (fun p => (p.1.1 ++ p.1.2, p.2)) = signature b := signatureS_flat b
theorem C01_rangesig_fieldwise (b : Bytes) : (rangeSigS b).map (fun p => (encRangeSigS p.1, p.2)) = rangeSig b := rangeSigS_flat b
theorem C01_sound_key64 : Sound (encSized id) key64S := sound_key64S
theorem C01_sound_borosig : Sound encBoroS boroSigS := sound_boroSigS
theorem C01_sound_rangesig : Sound encRangeSigS rangeSigS := sound_rangeSigS
/-- `Bulletproof` (6 keys, L, R, 3 keys) and `BulletproofPlus` (6 keys, L, R) read key by key give the values of the flat models
`bp` / `bpp` (whose soundness is `C01_sound_bulletproof(plus)`), with the same rest -/
theorem C01_bulletproof_fieldwise (b : Bytes) :
    (bpS b).map (fun p => ((⟨p.1.1.flatten, p.1.2.1, p.1.2.2.1, p.1.2.2.2.flatten⟩ : BP), p.2)) = bp b := bpS_flat b
theorem C01_bulletproofplus_fieldwise (b : Bytes) :
    (bppS b).map (fun p => ((⟨p.1.1.flatten, p.1.2.1, p.1.2.2⟩ : BPP), p.2)) = bpp b := bppS_flat b

/-- which variant a model value is, in the vocabulary of the regenerated tables -/
def txInV : TxIn → TxInV | .gen _ => .Gen | .toKey .. => .ToKey
def targetV : Target → TargetV | .key _ => .ToKey | .tagged .. => .ToTaggedKey

/-- **The tag literals of the model are the tag tables of the CURRENT SOURCE** (`Gen.*`, regenerated on every run): whatever the
model decoders accept starts with a tag of the table and yields the variant the table gives for it; every tag of the table is
accepted (given enough bytes) as that variant; the model encoders write the table's tag for the variant; the RingCT type byte
accepted by `base` / `rctType` is a key of `Gen.rctTypeDecode`, every key is accepted, and `encBase` / `encRctType` write, for the
number under which the DECODE table lists a variant, the byte that the ENCODE table gives for that variant. A one-sided tag edit
in the source changes a table and breaks this theorem even where `C01_sound_*` (which speak about the model alone) stay true.
(The type sets on which the model BRANCHES are the subject of `C01_model_branches_are_source`.) -/
theorem C01_model_tags_are_source :
    (∀ t r x r', txin (t :: r) = some (x, r') → (t.toNat, txInV x) ∈ Gen.txInDecode) ∧
    (∀ p ∈ Gen.txInDecode, (txin (UInt8.ofNat p.1 :: List.replicate 64 0)).map (fun y => txInV y.1) = some p.2) ∧
    (∀ x, ∃ t rest, encTxIn x = t :: rest ∧ (txInV x, t.toNat) ∈ Gen.txInEncode) ∧
    (∀ t r x r', target (t :: r) = some (x, r') → (t.toNat, targetV x) ∈ Gen.txOutTargetDecode) ∧
    (∀ p ∈ Gen.txOutTargetDecode, (target (UInt8.ofNat p.1 :: List.replicate 64 0)).map (fun y => targetV y.1) = some p.2) ∧
    (∀ x, ∃ t rest, encTarget x = t :: rest ∧ (targetV x, t.toNat) ∈ Gen.txOutTargetEncode) ∧
    (∀ i o t r x r', base i o (t :: r) = some (x, r') → t.toNat ∈ Gen.rctTypeDecode.map (·.1) ∧ x.ty = t.toNat) ∧
    (∀ t r x r', rctType (t :: r) = some (x, r') → t.toNat ∈ Gen.rctTypeDecode.map (·.1) ∧ x = t.toNat) ∧
    (∀ p ∈ Gen.rctTypeDecode, (base 0 0 (UInt8.ofNat p.1 :: List.replicate 8 0)).isSome ∧ (rctType [UInt8.ofNat p.1]).isSome) ∧
    (∀ p ∈ Gen.rctTypeDecode, ∀ q ∈ Gen.rctTypeEncode, p.2 = q.1 →
      (encBase ⟨p.1, 0, [], [], []⟩).head? = some (UInt8.ofNat q.2) ∧ encRctType p.1 = [UInt8.ofNat q.2]) := by
  refine ⟨?_, by decide, ?_, ?_, by decide, ?_, ?_, ?_, by decide, by decide⟩
  · intro t r x r' h
    unfold txin at h
    simp only [Monero.bind, u8] at h
    split at h
    · rename_i ht; subst ht
      obtain ⟨hh, r1, _, h2⟩ := bind_some h
      obtain ⟨rfl, _⟩ := pure_some h2; simp only [txInV, targetV]; decide
    · split at h
      · rename_i ht; subst ht
        obtain ⟨a, r1, _, h2⟩ := bind_some h
        obtain ⟨o, r2, _, h3⟩ := bind_some h2
        obtain ⟨k, r3, _, h4⟩ := bind_some h3
        obtain ⟨rfl, _⟩ := pure_some h4; simp only [txInV, targetV]; decide
      · exact (fail_some h).elim
  · intro x; cases x with
    | gen h => exact ⟨0xff, _, rfl, by simp only [txInV, targetV]; decide⟩
    | toKey a o k => exact ⟨2, _, rfl, by simp only [txInV, targetV]; decide⟩
  · intro t r x r' h
    unfold target at h
    simp only [Monero.bind, u8] at h
    split at h
    · rename_i ht; subst ht
      obtain ⟨k, r1, _, h2⟩ := bind_some h
      obtain ⟨rfl, _⟩ := pure_some h2; simp only [txInV, targetV]; decide
    · split at h
      · rename_i ht; subst ht
        obtain ⟨k, r1, _, h2⟩ := bind_some h
        obtain ⟨v, r2, _, h3⟩ := bind_some h2
        obtain ⟨rfl, _⟩ := pure_some h3; simp only [txInV, targetV]; decide
      · exact (fail_some h).elim
  · intro x; cases x with
    | key k => exact ⟨2, _, rfl, by simp only [txInV, targetV]; decide⟩
    | tagged k v => exact ⟨3, _, rfl, by simp only [txInV, targetV]; decide⟩
  · intro i o t r x r' h
    have hty := (sound_base i o _ _ _ h)
    unfold base at h
    simp only [Monero.bind, u8] at h
    split at h
    · exact (fail_some h).elim
    · rename_i hle
      have hle' : t.toNat ≤ 6 := by omega
      refine ⟨?_, ?_⟩
      · have : ∀ n, n ≤ 6 → n ∈ Gen.rctTypeDecode.map (·.1) := by decide
        exact this _ hle'
      · split at h
        · rename_i h0; obtain ⟨rfl, _⟩ := pure_some h; exact h0.symm
        · obtain ⟨fee, r1, _, h2⟩ := bind_some h
          obtain ⟨ps, r2, _, h3⟩ := bind_some h2
          obtain ⟨e, r3, _, h4⟩ := bind_some h3
          obtain ⟨pk, r4, _, h5⟩ := bind_some h4
          obtain ⟨rfl, _⟩ := pure_some h5; rfl
  · intro t r x r' h
    unfold rctType at h
    simp only [Monero.bind, u8] at h
    split at h
    · exact (fail_some h).elim
    · rename_i hle
      obtain ⟨rfl, _⟩ := pure_some h
      have : ∀ n, n ≤ 6 → n ∈ Gen.rctTypeDecode.map (·.1) := by decide
      exact ⟨this _ (by omega), rfl⟩

/-! ### The type sets on which the model branches are the variant sets of the source

Each clause RUNS a model function (`ecdh`, `base`, `prunable`, `proofsDec`, `sigsDec`, `pseudoDec`; `encBase`, `encProofs`, `encSigs`,
`encPseudo`, `encPrunable`) on a probe for each of the seven types `p = (number, variant) ∈ Gen.rctTypeDecode` and compares what the
function DID (which form it read / wrote, how many bytes) with what the regenerated table of the corresponding `match rct_type` /
`==` / `is_rct_bp()` / `is_rct_bp_plus()` expression of the source says about the variant. Changing a branch condition of the model
(e.g. `ty ≤ 3` to `ty ≤ 4` in `ecdh`) or of the source (one arm of one `match`) breaks the clause. -/

/-- probes -/
def k32 : Bytes := List.replicate 32 0
def bp0 : BP := ⟨List.replicate 192 0, [], [], List.replicate 96 0⟩
def bpp0 : BPP := ⟨List.replicate 192 0, [], []⟩
def zeros (n : Nat) : Bytes := List.replicate n 0
/-- bytes consumed by a decoder -/
def used {α} (b : Bytes) (r : Option (α × Bytes)) : Option Nat := r.map fun y => b.length - y.2.length

theorem C01_model_branches_are_source :
    -- DECODERS
    -- `EcdhInfo::consensus_decode`: two keys (64 bytes) for the first arm, 8 bytes for the second
    (∀ p ∈ Gen.rctTypeDecode,
      (ecdh p.1 (zeros 64)).map (fun y => (match y.1 with | .std .. => true | .bp .. => false, y.2.length))
        = some (if p.2 ∈ Gen.ecdhDecMatches[0]![0]! then (true, 0) else (false, 56))) ∧
    (∀ p ∈ Gen.rctTypeDecode, (p.2 ∈ Gen.ecdhDecMatches[0]![0]! ↔ p.2 ∉ Gen.ecdhDecMatches[0]![1]!)) ∧
    -- `RctSigBase::consensus_decode` (1 input, 0 outputs): only the type byte for the Null arm; otherwise the fee and, for the
    -- variants compared with `==` (Simple), one pseudo out per input
    (∀ p ∈ Gen.rctTypeDecode,
      (base 1 0 (UInt8.ofNat p.1 :: zeros 40)).map (fun y => (y.1.pseudo.length, 41 - y.2.length))
        = some (if p.2 ∈ Gen.baseDecMatches[0]![0]! then (0, 1) else if p.2 ∈ Gen.baseDecEqs then (1, 34) else (0, 2))) ∧
    -- `RctSigPrunable::consensus_decode` (1 input): `None`, nothing read, exactly for the Null arm
    (∀ p ∈ Gen.rctTypeDecode,
      (prunable p.1 1 0 0 (zeros 200)).map (fun y => (y.1.isNone, y.2.length == 200))
        = some (if p.2 ∈ Gen.prunDecMatches[0]![0]! then (true, true) else (false, false))) ∧
    -- range proofs (count 1 in every width): `is_rct_bp()` → Bulletproofs, varint count for the arm `Bulletproof2 | Clsag`, u32
    -- count otherwise; `is_rct_bp_plus()` → BulletproofPlus, one-byte count; else one range signature per output (0 outputs)
    (∀ p ∈ Gen.rctTypeDecode,
      (proofsDec p.1 0 (1 :: zeros 400)).map (fun y => (y.1.1.length, y.1.2.1.length, y.1.2.2.length, 401 - y.2.length))
        = some (if p.2 ∈ Gen.isRctBp then (if p.2 ∈ Gen.prunDecMatches[1]![0]! then (0, 1, 0, 291) else (0, 1, 0, 294))
                else if p.2 ∈ Gen.isRctBpPlus then (0, 0, 1, 195) else (0, 0, 0, 0))) ∧
    -- ring signatures (2 inputs, mixin 0): CLSAGs for the arm `Clsag | BulletproofPlus`; else MLSAGs — one per input with 2 columns
    -- for the variants compared with `==` (`is_simple_or_bp`), one with inputs + 1 columns otherwise
    (∀ p ∈ Gen.rctTypeDecode,
      (sigsDec p.1 2 0 (zeros 200)).map (fun y => (y.1.1.length, y.1.2.length, (y.1.1.map (fun m => m.ss.map (·.length))), 200 - y.2.length))
        = some (if p.2 ∈ Gen.prunDecMatches[2]![0]! then (0, 2, [], 192)
                else if p.2 ∈ Gen.prunDecEqs then (2, 0, [[2], [2]], 192) else (1, 0, [[3]], 128))) ∧
    -- pseudo outs in the prunable part: one per input for the arm `Bulletproof | Bulletproof2 | Clsag | BulletproofPlus`
    (∀ p ∈ Gen.rctTypeDecode,
      (pseudoDec p.1 1 (zeros 32)).map (fun y => (y.1.length, y.2.length))
        = some (if p.2 ∈ Gen.prunDecMatches[3]![0]! then (1, 0) else (0, 32))) ∧
    -- ENCODERS (the tables of the `consensus_encode` functions; `is_rct_bp` / `is_rct_bp_plus` are shared)
    (∀ p ∈ Gen.rctTypeDecode,
      (encBase ⟨p.1, 0, [k32], [], []⟩).length
        = (if p.2 ∈ Gen.baseEncMatches[0]![0]! then 1 else if p.2 ∈ Gen.baseEncEqs then 34 else 2)) ∧
    (∀ p ∈ Gen.rctTypeDecode,
      (encPrunable ⟨[], [], [], [⟨[[k32]], k32⟩], [⟨[k32], k32, k32⟩], [k32]⟩ p.1).isEmpty = decide (p.2 ∈ Gen.prunEncMatches[0]![0]!)) ∧
    (∀ p ∈ Gen.rctTypeDecode,
      (encProofs [zeros 5] [bp0] [bpp0] p.1).length
        = (if p.2 ∈ Gen.isRctBp then (if p.2 ∈ Gen.prunEncMatches[1]![0]! then 291 else 294)
           else if p.2 ∈ Gen.isRctBpPlus then 195 else 5)) ∧
    (∀ p ∈ Gen.rctTypeDecode,
      (encSigs [⟨[[k32]], k32⟩] [⟨[k32], k32, k32⟩] p.1).length = (if p.2 ∈ Gen.prunEncMatches[2]![0]! then 96 else 64)) ∧
    (∀ p ∈ Gen.rctTypeDecode,
      (encPseudo [k32] p.1).length = (if p.2 ∈ Gen.prunEncMatches[3]![0]! then 32 else 0)) ∧
    -- the tables have the shape the clauses above index into; the prunable encoder has no `==` comparison of its own
    Gen.ecdhDecMatches.length = 1 ∧ Gen.baseDecMatches.length = 1 ∧ Gen.prunDecMatches.length = 4 ∧ Gen.baseDecEqs.length = 1 ∧
    Gen.prunDecEqs.length = 3 ∧ Gen.ecdhDecEqs = [] ∧ Gen.prunEncEqs = [] ∧
    Gen.baseEncMatches.length = 1 ∧ Gen.prunEncMatches.length = 4 ∧ Gen.baseEncEqs.length = 1 := by
  refine ⟨by decide +kernel, by decide +kernel, by decide +kernel, by decide +kernel, by decide +kernel, by decide +kernel,
    by decide +kernel, by decide +kernel, by decide +kernel, by decide +kernel, by decide +kernel, by decide +kernel,
    by decide, by decide, by decide, by decide, by decide, by decide, by decide, by decide, by decide, by decide⟩

/-! ### `RctType` read off the tables -/

/-- `RctType::consensus_decode` as the regenerated decode table: one byte, looked up (every other byte is an error) -/
def rctTypeT : Dec RctTy := bind u8 fun t => match Gen.rctTypeDecode.lookup t.toNat with | some v => pure' v | none => fail
/-- `RctType::consensus_encode` as the regenerated encode table -/
def encRctTypeT (v : RctTy) : Bytes := [UInt8.ofNat ((Gen.rctTypeEncode.lookup v).getD 0)]
/-- the two separately written tables of the source are mutually inverse on bytes: a byte accepted as variant `v` is the byte written for `v` -/
theorem rctType_tables_inverse : ∀ n < 256, ∀ v ∈ Gen.rctTypeDecode.lookup n, (Gen.rctTypeEncode.lookup v).getD 0 = n := by
  decide +kernel
/-- **`RctType` is a canonical codec, from the two tables of the source** (not from the model's identification of a type with its
number): a one-sided edit of `RctType::consensus_decode` or `::consensus_encode` breaks this theorem -/
theorem C01_sound_rcttype_tables : Sound encRctTypeT rctTypeT := by
  intro b x r h
  unfold rctTypeT at h
  obtain ⟨t, r1, h1, h2⟩ := bind_some h
  have hb := sound_u8 _ _ _ h1
  cases hl : Gen.rctTypeDecode.lookup t.toNat with
  | none => simp only [hl] at h2; exact (fail_some h2).elim
  | some v =>
    simp only [hl] at h2
    obtain ⟨rfl, rfl⟩ := pure_some h2
    have := rctType_tables_inverse t.toNat (by have := t.toNat_lt; omega) v hl
    simp only [encRctTypeT, this, UInt8.ofNat_toNat]
    simpa using hb
example : rctTypeT [6, 9] = some (.BulletproofPlus, [9]) := by decide
/-- the number-valued model codec used by the driver and by `base` is this table codec followed by the numbering of the ENCODE table -/
theorem C01_rcttype_model_is_table (b : Bytes) :
    rctType b = (rctTypeT b).map (fun y => ((Gen.rctTypeEncode.lookup y.1).getD 0, y.2)) ∧
    (∀ v, encRctTypeT v = encRctType ((Gen.rctTypeEncode.lookup v).getD 0)) := by
  refine ⟨?_, fun v => rfl⟩
  have key : ∀ n < 256, (if n > 6 then (none : Option Nat) else some n) = (Gen.rctTypeDecode.lookup n).map (fun v => (Gen.rctTypeEncode.lookup v).getD 0) := by
    decide +kernel
  cases b with
  | nil => rfl
  | cons t r =>
    have := key t.toNat (by have := t.toNat_lt; omega)
    simp only [rctType, rctTypeT, Monero.bind, u8]
    split
    · rename_i hgt; simp only [hgt, if_true] at this
      cases hl : Gen.rctTypeDecode.lookup t.toNat with
      | none => rfl
      | some v => rw [hl] at this; simp at this
    · rename_i hgt; simp only [hgt, if_false] at this
      cases hl : Gen.rctTypeDecode.lookup t.toNat with
      | none => rw [hl] at this; simp at this
      | some v => rw [hl] at this; simp only [Option.map_some, Option.some.injEq] at this; simp [pure', this]

/- non-vacuity: a concrete coinbase-style transaction is accepted (test, by kernel evaluation) -/
example : (tx [2, 0, 1, 0xff, 5, 0, 0, 0]).isSome = true := by decide
end C01
