import MoneroModel.Proofs.BlockSound
import MoneroModel.Proofs.TxIdCommits
import MoneroModel.Proofs.FixedRecords
import MoneroModel.Gen.Codec
open Monero
/-! # C01 — parsed consensus data re-serialises to exactly the bytes that were parsed

`Sound enc dec := ∀ b x r, dec b = some (x, r) → b = enc x ++ r`: whatever a decoder accepts, re-encoding the value gives
back exactly the consumed bytes (`r` is the unconsumed rest). Decoders and encoders are *separately written* models of
the separately written Rust decoders and encoders (transaction.rs, ringct.rs, block.rs, encode.rs); the theorems
quantify over every byte string, every version, all seven RingCT types and every count. -/
namespace C01

theorem C01_sound_varint : Sound encVarint varint := sound_varint'
theorem C01_sound_u8 : Sound (fun b => [b]) u8 := sound_u8
/-- 32-byte records (`Key`, `Hash`, `KeyImage`, `CtKey`), `Hash8`, `Signature`, `Key64`, `RangeSig`: fixed-width takes -/
theorem C01_sound_fixed (n : Nat) : Sound id (takeN n) := sound_takeN n
theorem C01_sound_uint (k : Nat) (b : Bytes) (n : Nat) (r : Bytes) (h : uintLE k b = some (n, r)) :
    b = encUintLE k n ++ r := (sound_uintLE k b n r h).1
/-- `Vec<T>` / `Box<[T]>` / `[T]` of any sound element type, with the allocation cap -/
theorem C01_sound_vec {α} (sz : Nat) (e : α → Bytes) (d : Dec α) (hs : Sound e d) : Sound (encVec e) (vec sz d) :=
  sound_vec sz e d hs
/-- `consensus_decode_sized_vec` (count known from context) -/
theorem C01_sound_sized_vec {α} (sz : Nat) (e : α → Bytes) (d : Dec α) (hs : Sound e d) (n : Nat) :
    Sound (encSized e) (sizedVec sz d n) := sound_sized sz e d hs n
theorem C01_sound_string (valid : Bytes → Bool) : Sound encString (stringDec valid) := by
  intro b x r h
  unfold stringDec at h
  obtain ⟨bs, r1, h1, h2⟩ := bind_some h
  split at h2
  · obtain ⟨rfl, rfl⟩ := pure_some h2
    have := sound_vec sizes.u8 (fun b => [b]) u8 sound_u8 _ _ _ h1
    rw [this]
    simp only [encVec, encString, List.append_assoc]
    congr 2
    exact flatten_singletons' bs
  · exact (fail_some h2).elim
theorem C01_sound_txin : Sound encTxIn txin := sound_txin
theorem C01_sound_target : Sound encTarget target := sound_target
theorem C01_sound_txout : Sound encTxOut txout := sound_txout
theorem C01_sound_prefix : Sound encPrefix prefix' := sound_prefix
theorem C01_sound_ecdh (ty : Nat) : Sound encEcdh (ecdh ty) := sound_ecdh ty
theorem C01_sound_bulletproof : Sound encBP bp := sound_bp
theorem C01_sound_bulletproofplus : Sound encBPP bpp := sound_bpp
theorem C01_sound_clsag (m : Nat) : Sound encClsag (clsagDec m) := sound_clsag m
theorem C01_sound_mgsig (cols m : Nat) : Sound encMG (mgDec cols m) := sound_mg cols m
/-- `RctSigBase::consensus_decode(inputs, outputs)` -/
theorem C01_sound_rct_base (i o : Nat) : Sound encBase (base i o) := fun b x r h => (sound_base i o b x r h).1
/-- `RctSigPrunable::consensus_decode(type, inputs, outputs, mixin)`: `None` for Null consumes nothing -/
theorem C01_sound_rct_prunable (ty i o m : Nat) (b : Bytes) (x : Option Prunable) (r : Bytes)
    (h : prunable ty i o m b = some (x, r)) :
    b = (match x with | none => [] | some p => encPrunable p ty) ++ r := by
  rcases sound_prunable ty i o m b x r h with ⟨_, rfl, rfl⟩ | ⟨_, p, rfl, hb⟩
  · rfl
  · exact hb
theorem C01_sound_transaction : Sound encTx tx := sound_tx
theorem C01_sound_header : Sound encHeader header := sound_header
theorem C01_sound_block : Sound encBlock block := sound_block

/-- the tag tables of the CURRENT SOURCE (regenerated on every run) are mutually inverse: every variant is written with
exactly the one byte under which it is accepted — the obligation that a one-sided tag edit (a second accepted tag, a changed
written tag) breaks -/
theorem C01_tag_tables_inverse :
    Gen.txInEncode = Gen.txInDecode.map (fun p => (p.2, p.1)) ∧
    Gen.txOutTargetEncode = Gen.txOutTargetDecode.map (fun p => (p.2, p.1)) ∧
    Gen.subFieldEncode = Gen.subFieldDecode.map (fun p => (p.2, p.1)) ∧
    Gen.rctTypeEncode = Gen.rctTypeDecode.map (fun p => (p.2, p.1)) ∧
    (Gen.txInDecode.map (·.2)).Nodup ∧ (Gen.txOutTargetDecode.map (·.2)).Nodup ∧ (Gen.subFieldDecode.map (·.2)).Nodup ∧
    (Gen.rctTypeDecode.map (·.2)).Nodup ∧ (Gen.rctTypeDecode.map (·.1)).Nodup ∧
    Gen.baseEncMatches = Gen.baseDecMatches ∧ Gen.baseEncEqs = Gen.baseDecEqs ∧ Gen.prunEncMatches = Gen.prunDecMatches := by decide

/-- the statement of the property: `serialise(x) = b[0..n]` with `n` the number of bytes consumed -/
theorem C01_consumed {α} (enc : α → Bytes) (dec : Dec α) (hs : Sound enc dec) (b : Bytes) (x : α) (r : Bytes)
    (h : dec b = some (x, r)) : enc x = b.take (b.length - r.length) ∧ r = b.drop (b.length - r.length) := by
  have := hs b x r h; subst this; simp

/-- no two different byte strings parse (strictly) to the same value -/
theorem C01_injective {α} (enc : α → Bytes) (dec : Dec α) (hs : Sound enc dec) (b1 b2 : Bytes) (x : α)
    (h1 : strict dec b1 = some x) (h2 : strict dec b2 = some x) : b1 = b2 := by
  unfold strict at h1 h2
  split at h1 <;> simp at h1
  split at h2 <;> simp at h2
  rename_i y1 hd1 _ y2 hd2
  subst h1 h2
  have e1 := hs _ _ _ hd1; have e2 := hs _ _ _ hd2
  simp at e1 e2; rw [e1, e2]

/-- and with partial parsing: equal values ⇒ equal consumed prefixes -/
theorem C01_injective_partial {α} (enc : α → Bytes) (dec : Dec α) (hs : Sound enc dec) (b1 b2 : Bytes) (x : α)
    (r1 r2 : Bytes) (h1 : dec b1 = some (x, r1)) (h2 : dec b2 = some (x, r2)) :
    b1.take (b1.length - r1.length) = b2.take (b2.length - r2.length) := by
  rw [← (C01_consumed enc dec hs b1 x r1 h1).1, ← (C01_consumed enc dec hs b2 x r2 h2).1]

/-- every identifier computed from a parsed object by hashing its serialisation commits to the received bytes:
for any function `f` of the serialisation (`H ∘ serialize`), `f (enc x)` is `f` of the consumed bytes -/
theorem C01_ids_commit {α β} (enc : α → Bytes) (dec : Dec α) (hs : Sound enc dec) (f : Bytes → β) (b : Bytes) (x : α)
    (h : strict dec b = some x) : f (enc x) = f b := by
  unfold strict at h
  split at h <;> simp at h
  rename_i y hd; subst h
  have := hs _ _ _ hd; simp at this; rw [this]

/-! ## Added after the audit -/

/-- `RctType` as a stand-alone `Decodable` / `Encodable` (ringct.rs:659-689; `RctSigBase` inlines the same byte) -/
theorem C01_sound_rcttype : Sound encRctType rctType := by
  intro b x r h
  unfold rctType at h
  obtain ⟨t, r1, h1, h2⟩ := bind_some h
  have hb := sound_u8 _ _ _ h1
  split at h2
  · exact (fail_some h2).elim
  · obtain ⟨rfl, rfl⟩ := pure_some h2
    simpa [encRctType] using hb

/-- signed fixed-width integers (`i8 … i64`): the two's-complement residue of the decoded value, little endian, is the
consumed bytes -/
theorem C01_sound_int (k : Nat) (b : Bytes) (v : Int) (r : Bytes) (h : intLE k b = some (v, r)) :
    b = encIntLE k v ++ r := by
  unfold intLE at h
  obtain ⟨n, r1, h1, h2⟩ := bind_some h
  obtain ⟨rfl, rfl⟩ := pure_some h2
  obtain ⟨hb, hn⟩ := sound_uintLE k _ _ _ h1
  have e : ((if n < 256 ^ k / 2 then (n : Int) else (n : Int) - ((256 ^ k : Nat) : Int)) % ((256 ^ k : Nat) : Int)).toNat = n := by
    split
    · rw [Int.emod_eq_of_lt (by omega) (by exact_mod_cast hn)]; simp
    · rw [Int.sub_emod, Int.emod_self, Int.sub_zero, Int.emod_emod_of_dvd _ (Int.dvd_refl _), Int.emod_eq_of_lt (by omega) (by exact_mod_cast hn)]; simp
  unfold encIntLE
  rw [e]; exact hb

/-- `bool` (any non-zero byte decodes to `true`, `true` is written as 1) is NOT a canonical codec: it is outside the property
(`bool` is not reachable from `Block` / `Transaction`), and the harness excludes it from the intrinsic oracle for this reason -/
theorem C01_bool_not_sound : ¬ Sound encBool boolDec := by
  intro h
  have := h [2] true [] (by rfl)
  revert this; decide
/-- … it is sound exactly on the two canonical bytes -/
theorem C01_sound_bool_canonical (t : UInt8) (r : Bytes) (ht : t = 0 ∨ t = 1) (x : Bool) (r' : Bytes)
    (h : boolDec (t :: r) = some (x, r')) : t :: r = encBool x ++ r' := by
  rcases ht with rfl | rfl <;> (simp [boolDec, Monero.bind, u8, pure'] at h; obtain ⟨rfl, rfl⟩ := h; rfl)
example : boolDec [1, 7] = some (true, [7]) := by rfl

/-- instances of "no two different byte strings parse to the same value" for the concrete record types -/
theorem C01_injective_tx (b1 b2 : Bytes) (t : Tx) (h1 : strict tx b1 = some t) (h2 : strict tx b2 = some t) : b1 = b2 :=
  C01_injective encTx tx sound_tx b1 b2 t h1 h2
theorem C01_injective_block (b1 b2 : Bytes) (x : Block) (h1 : strict block b1 = some x) (h2 : strict block b2 = some x) : b1 = b2 :=
  C01_injective encBlock block sound_block b1 b2 x h1 h2
theorem C01_injective_header (b1 b2 : Bytes) (x : Header) (h1 : strict header b1 = some x) (h2 : strict header b2 = some x) : b1 = b2 :=
  C01_injective encHeader header sound_header b1 b2 x h1 h2
theorem C01_injective_prefix (b1 b2 : Bytes) (x : Prefix) (h1 : strict prefix' b1 = some x) (h2 : strict prefix' b2 = some x) : b1 = b2 :=
  C01_injective encPrefix prefix' sound_prefix b1 b2 x h1 h2
theorem C01_injective_txin (b1 b2 : Bytes) (x : TxIn) (h1 : strict txin b1 = some x) (h2 : strict txin b2 = some x) : b1 = b2 :=
  C01_injective encTxIn txin sound_txin b1 b2 x h1 h2
theorem C01_injective_txout (b1 b2 : Bytes) (x : TxOut) (h1 : strict txout b1 = some x) (h2 : strict txout b2 = some x) : b1 = b2 :=
  C01_injective encTxOut txout sound_txout b1 b2 x h1 h2
example : strict tx [2, 0, 1, 0xff, 5, 0, 0, 0] = some ⟨⟨2, 0, [.gen 5], [], []⟩, [], some ⟨0, 0, [], [], []⟩, none⟩ := by rfl

/-- **The transaction identifier commits to the received bytes** (the clause that `C01_ids_commit` only states for
identifiers of the form `H ∘ serialize`): for the model of `Transaction::hash` (`txHash`, Model/TxHash.lean — version 1:
`H(serialisation)`; otherwise `H(H(prefix) ‖ H(base) ‖ (Null ? 0³² : H(prunable)))`) with an arbitrary 32-byte-valued `H`, two
strictly parsed transactions of the same version class with equal identifiers were parsed from the SAME bytes, or the
equality exhibits a collision of `H`. (Without `hv` the claim is false: a 96-byte RingCT pre-image can itself be a valid version-1
serialisation, so version-1 and RingCT identifiers are not domain-separated.) -/
theorem C01_txid_commits (H : Bytes → Bytes) (hlen : ∀ x, (H x).length = 32) (b1 b2 : Bytes) (t1 t2 : Tx)
    (h1 : tx b1 = some (t1, [])) (h2 : tx b2 = some (t2, []))
    (hv : t1.pre.version = 1 ↔ t2.pre.version = 1) (hid : txHash H t1 = txHash H t2) :
    b1 = b2 ∨ ∃ u v, u ≠ v ∧ H u = H v := txid_commits H hlen b1 b2 t1 t2 h1 h2 hv hid
/- the hypotheses are jointly satisfiable (constant `H`, a Null-type coinbase transaction) -/
example : ∃ (H : Bytes → Bytes) (b : Bytes) (t : Tx), (∀ x, (H x).length = 32) ∧ tx b = some (t, []) :=
  ⟨fun _ => List.replicate 32 0, [2, 0, 1, 0xff, 5, 0, 0, 0], ⟨⟨2, 0, [.gen 5], [], []⟩, [], some ⟨0, 0, [], [], []⟩, none⟩, fun _ => by simp, by rfl⟩

/-- **Fixed-width records, field by field.** The flat `takeN` models (`C01_sound_fixed`) say nothing about the separately written
Rust element loops; these do: reading n fixed-width elements one after another (`[T; N]` of `impl_array!`, the `Key64` loop) consumes
exactly the bytes of one flat read and the parts concatenate to the flat value; `Signature { c, r }` read as two keys and
`RangeSig { asig: BoroSig { s0, s1, ee }, Ci }` read as 64 + 64 + 1 + 64 keys (Proofs/FixedRecords: `key64S`, `signatureS`,
`rangeSigS`, with their own encoders) agree with the flat 64 / 6176-byte models used by the driver, and are sound by themselves. -/
theorem C01_fixed_elementwise (w : Nat) (n : Nat) (b : Bytes) :
    (rep (takeN w) n b).map (fun p => (p.1.flatten, p.2)) = takeN (w * n) b := rep_takeN_flat w n b
theorem C01_key64_elementwise (b : Bytes) : (key64S b).map (fun p => (p.1.flatten, p.2)) = key64 b := key64S_flat b
theorem C01_signature_fieldwise (b : Bytes) : (signatureS b).map (fun p => (p.1.1 ++ p.1.2, p.2)) = signature b := signatureS_flat b
theorem C01_rangesig_fieldwise (b : Bytes) : (rangeSigS b).map (fun p => (encRangeSigS p.1, p.2)) = rangeSig b := rangeSigS_flat b
theorem C01_sound_key64 : Sound (encSized id) key64S := sound_key64S
theorem C01_sound_rangesig : Sound encRangeSigS rangeSigS := sound_rangeSigS

/-- which variant a model value is, in the vocabulary of the regenerated tables -/
def txInV : TxIn → TxInV | .gen _ => .Gen | .toKey .. => .ToKey
def targetV : Target → TargetV | .key _ => .ToKey | .tagged .. => .ToTaggedKey

/-- **The tag literals of the model are the tag tables of the CURRENT SOURCE** (`Gen.*`, regenerated on every run): whatever the
model decoders accept starts with a tag of the table and yields the variant the table gives for it; every tag of the table is
accepted (given enough bytes) as that variant; the model encoders write the table's tag for the variant; the RingCT type byte
accepted by `base` / `rctType` is a key of `Gen.rctTypeDecode`, every key is accepted, and the encoder writes the type's own
number; and the type sets on which the model branches (`ty ≤ 3` for the 64-byte ecdh form, `ty = 4 ∨ ty = 5` varint proof count,
`ty = 5 ∨ ty = 6` CLSAG, `ty ≥ 3` pseudo outs in the prunable part, `ty = 2` pseudo outs in the base, `ty = 0` nothing) are the
variant sets of the `match rct_type` arms of the source. A one-sided tag edit in the source changes a table and breaks this
theorem even where `C01_sound_*` (which speak about the model alone) stay true. -/
theorem C01_model_tags_are_source :
    (∀ t r x r', txin (t :: r) = some (x, r') → (t.toNat, txInV x) ∈ Gen.txInDecode) ∧
    (∀ p ∈ Gen.txInDecode, (txin (UInt8.ofNat p.1 :: List.replicate 64 0)).map (fun y => txInV y.1) = some p.2) ∧
    (∀ x, ∃ t rest, encTxIn x = t :: rest ∧ (txInV x, t.toNat) ∈ Gen.txInEncode) ∧
    (∀ t r x r', target (t :: r) = some (x, r') → (t.toNat, targetV x) ∈ Gen.txOutTargetDecode) ∧
    (∀ p ∈ Gen.txOutTargetDecode, (target (UInt8.ofNat p.1 :: List.replicate 64 0)).map (fun y => targetV y.1) = some p.2) ∧
    (∀ x, ∃ t rest, encTarget x = t :: rest ∧ (targetV x, t.toNat) ∈ Gen.txOutTargetEncode) ∧
    (∀ i o t r x r', base i o (t :: r) = some (x, r') → t.toNat ∈ Gen.rctTypeDecode.map (·.1) ∧ x.ty = t.toNat) ∧
    (∀ t r x r', rctType (t :: r) = some (x, r') → t.toNat ∈ Gen.rctTypeDecode.map (·.1) ∧ x = t.toNat) ∧
    (∀ p ∈ Gen.rctTypeDecode, (base 0 0 (UInt8.ofNat p.1 :: List.replicate 8 0)).isSome ∧ (rctType [UInt8.ofNat p.1]).isSome) ∧
    (∀ p ∈ Gen.rctTypeEncode, encRctType p.2 = [UInt8.ofNat p.2] ∧ (p.2, p.1) ∈ Gen.rctTypeDecode) ∧
    (∀ p ∈ Gen.rctTypeDecode,
      (decide (p.1 ≤ 3) = decide (p.2 ∈ Gen.ecdhDecMatches[0]![0]!)) ∧ (decide (p.1 ≤ 3) = !decide (p.2 ∈ Gen.ecdhDecMatches[0]![1]!)) ∧
      (decide (p.1 = 0) = decide (p.2 ∈ Gen.baseDecMatches[0]![0]!)) ∧ (decide (p.1 = 0) = decide (p.2 ∈ Gen.prunDecMatches[0]![0]!)) ∧
      (decide (p.1 = 2) = decide (p.2 ∈ Gen.baseDecEqs)) ∧
      (decide (p.1 = 4 ∨ p.1 = 5) = decide (p.2 ∈ Gen.prunDecMatches[1]![0]!)) ∧
      (decide (p.1 = 5 ∨ p.1 = 6) = decide (p.2 ∈ Gen.prunDecMatches[2]![0]!)) ∧
      (decide (p.1 ≥ 3) = decide (p.2 ∈ Gen.prunDecMatches[3]![0]!))) := by
  refine ⟨?_, by decide, ?_, ?_, by decide, ?_, ?_, ?_, by decide, by decide, by decide⟩
  · intro t r x r' h
    unfold txin at h
    simp only [Monero.bind, u8] at h
    split at h
    · rename_i ht; subst ht
      obtain ⟨hh, r1, _, h2⟩ := bind_some h
      obtain ⟨rfl, _⟩ := pure_some h2; simp only [txInV, targetV]; decide
    · split at h
      · rename_i ht; subst ht
        obtain ⟨a, r1, _, h2⟩ := bind_some h
        obtain ⟨o, r2, _, h3⟩ := bind_some h2
        obtain ⟨k, r3, _, h4⟩ := bind_some h3
        obtain ⟨rfl, _⟩ := pure_some h4; simp only [txInV, targetV]; decide
      · exact (fail_some h).elim
  · intro x; cases x with
    | gen h => exact ⟨0xff, _, rfl, by simp only [txInV, targetV]; decide⟩
    | toKey a o k => exact ⟨2, _, rfl, by simp only [txInV, targetV]; decide⟩
  · intro t r x r' h
    unfold target at h
    simp only [Monero.bind, u8] at h
    split at h
    · rename_i ht; subst ht
      obtain ⟨k, r1, _, h2⟩ := bind_some h
      obtain ⟨rfl, _⟩ := pure_some h2; simp only [txInV, targetV]; decide
    · split at h
      · rename_i ht; subst ht
        obtain ⟨k, r1, _, h2⟩ := bind_some h
        obtain ⟨v, r2, _, h3⟩ := bind_some h2
        obtain ⟨rfl, _⟩ := pure_some h3; simp only [txInV, targetV]; decide
      · exact (fail_some h).elim
  · intro x; cases x with
    | key k => exact ⟨2, _, rfl, by simp only [txInV, targetV]; decide⟩
    | tagged k v => exact ⟨3, _, rfl, by simp only [txInV, targetV]; decide⟩
  · intro i o t r x r' h
    have hty := (sound_base i o _ _ _ h)
    unfold base at h
    simp only [Monero.bind, u8] at h
    split at h
    · exact (fail_some h).elim
    · rename_i hle
      have hle' : t.toNat ≤ 6 := by omega
      refine ⟨?_, ?_⟩
      · have : ∀ n, n ≤ 6 → n ∈ Gen.rctTypeDecode.map (·.1) := by decide
        exact this _ hle'
      · split at h
        · rename_i h0; obtain ⟨rfl, _⟩ := pure_some h; exact h0.symm
        · obtain ⟨fee, r1, _, h2⟩ := bind_some h
          obtain ⟨ps, r2, _, h3⟩ := bind_some h2
          obtain ⟨e, r3, _, h4⟩ := bind_some h3
          obtain ⟨pk, r4, _, h5⟩ := bind_some h4
          obtain ⟨rfl, _⟩ := pure_some h5; rfl
  · intro t r x r' h
    unfold rctType at h
    simp only [Monero.bind, u8] at h
    split at h
    · exact (fail_some h).elim
    · rename_i hle
      obtain ⟨rfl, _⟩ := pure_some h
      have : ∀ n, n ≤ 6 → n ∈ Gen.rctTypeDecode.map (·.1) := by decide
      exact ⟨this _ (by omega), rfl⟩

/- non-vacuity: a concrete coinbase-style transaction is accepted (test, by kernel evaluation) -/
example : (tx [2, 0, 1, 0xff, 5, 0, 0, 0]).isSome = true := by decide
end C01
