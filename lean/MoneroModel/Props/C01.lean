import MoneroModel.Proofs.BlockSound
import MoneroModel.Gen.Codec
open Monero
/-! # C01 — parsed consensus data re-serialises to exactly the bytes that were parsed

`Sound enc dec := ∀ b x r, dec b = some (x, r) → b = enc x ++ r`: whatever a decoder accepts, re-encoding the value gives
back exactly the consumed bytes (`r` is the unconsumed rest). Decoders and encoders are *separately written* models of
the separately written Rust decoders and encoders (transaction.rs, ringct.rs, block.rs, encode.rs); the theorems
quantify over every byte string, every version, all seven RingCT types and every count. -/
namespace C01

theorem C01_sound_varint : Sound encVarint varint := sound_varint'
theorem C01_sound_u8 : Sound (fun b => [b]) u8 := sound_u8
/-- 32-byte records (`Key`, `Hash`, `KeyImage`, `CtKey`), `Hash8`, `Signature`, `Key64`, `RangeSig`: fixed-width takes -/
theorem C01_sound_fixed (n : Nat) : Sound id (takeN n) := sound_takeN n
theorem C01_sound_uint (k : Nat) (b : Bytes) (n : Nat) (r : Bytes) (h : uintLE k b = some (n, r)) :
    b = encUintLE k n ++ r := (sound_uintLE k b n r h).1
/-- `Vec<T>` / `Box<[T]>` / `[T]` of any sound element type, with the allocation cap -/
theorem C01_sound_vec {α} (sz : Nat) (e : α → Bytes) (d : Dec α) (hs : Sound e d) : Sound (encVec e) (vec sz d) :=
  sound_vec sz e d hs
/-- `consensus_decode_sized_vec` (count known from context) -/
theorem C01_sound_sized_vec {α} (sz : Nat) (e : α → Bytes) (d : Dec α) (hs : Sound e d) (n : Nat) :
    Sound (encSized e) (sizedVec sz d n) := sound_sized sz e d hs n
theorem C01_sound_string (valid : Bytes → Bool) : Sound encString (stringDec valid) := by
  intro b x r h
  unfold stringDec at h
  obtain ⟨bs, r1, h1, h2⟩ := bind_some h
  split at h2
  · obtain ⟨rfl, rfl⟩ := pure_some h2
    have := sound_vec sizes.u8 (fun b => [b]) u8 sound_u8 _ _ _ h1
    rw [this]
    simp only [encVec, encString, List.append_assoc]
    congr 2
    exact flatten_singletons' bs
  · exact (fail_some h2).elim
theorem C01_sound_txin : Sound encTxIn txin := sound_txin
theorem C01_sound_target : Sound encTarget target := sound_target
theorem C01_sound_txout : Sound encTxOut txout := sound_txout
theorem C01_sound_prefix : Sound encPrefix prefix' := sound_prefix
theorem C01_sound_ecdh (ty : Nat) : Sound encEcdh (ecdh ty) := sound_ecdh ty
theorem C01_sound_bulletproof : Sound encBP bp := sound_bp
theorem C01_sound_bulletproofplus : Sound encBPP bpp := sound_bpp
theorem C01_sound_clsag (m : Nat) : Sound encClsag (clsagDec m) := sound_clsag m
theorem C01_sound_mgsig (cols m : Nat) : Sound encMG (mgDec cols m) := sound_mg cols m
/-- `RctSigBase::consensus_decode(inputs, outputs)` -/
theorem C01_sound_rct_base (i o : Nat) : Sound encBase (base i o) := fun b x r h => (sound_base i o b x r h).1
/-- `RctSigPrunable::consensus_decode(type, inputs, outputs, mixin)`: `None` for Null consumes nothing -/
theorem C01_sound_rct_prunable (ty i o m : Nat) (b : Bytes) (x : Option Prunable) (r : Bytes)
    (h : prunable ty i o m b = some (x, r)) :
    b = (match x with | none => [] | some p => encPrunable p ty) ++ r := by
  rcases sound_prunable ty i o m b x r h with ⟨_, rfl, rfl⟩ | ⟨_, p, rfl, hb⟩
  · rfl
  · exact hb
theorem C01_sound_transaction : Sound encTx tx := sound_tx
theorem C01_sound_header : Sound encHeader header := sound_header
theorem C01_sound_block : Sound encBlock block := sound_block

/-- the tag tables of the CURRENT SOURCE (regenerated on every run) are mutually inverse: every variant is written with
exactly the one byte under which it is accepted — the obligation that a one-sided tag edit (a second accepted tag, a changed
written tag) breaks -/
theorem C01_tag_tables_inverse :
    Gen.txInEncode = Gen.txInDecode.map (fun p => (p.2, p.1)) ∧
    Gen.txOutTargetEncode = Gen.txOutTargetDecode.map (fun p => (p.2, p.1)) ∧
    Gen.subFieldEncode = Gen.subFieldDecode.map (fun p => (p.2, p.1)) ∧
    Gen.rctTypeEncode = Gen.rctTypeDecode.map (fun p => (p.2, p.1)) ∧
    (Gen.txInDecode.map (·.2)).Nodup ∧ (Gen.txOutTargetDecode.map (·.2)).Nodup ∧ (Gen.subFieldDecode.map (·.2)).Nodup ∧
    (Gen.rctTypeDecode.map (·.2)).Nodup ∧ (Gen.rctTypeDecode.map (·.1)).Nodup ∧
    Gen.baseEncMatches = Gen.baseDecMatches ∧ Gen.baseEncEqs = Gen.baseDecEqs ∧ Gen.prunEncMatches = Gen.prunDecMatches := by decide

/-- the statement of the property: `serialise(x) = b[0..n]` with `n` the number of bytes consumed -/
theorem C01_consumed {α} (enc : α → Bytes) (dec : Dec α) (hs : Sound enc dec) (b : Bytes) (x : α) (r : Bytes)
    (h : dec b = some (x, r)) : enc x = b.take (b.length - r.length) ∧ r = b.drop (b.length - r.length) := by
  have := hs b x r h; subst this; simp

/-- no two different byte strings parse (strictly) to the same value -/
theorem C01_injective {α} (enc : α → Bytes) (dec : Dec α) (hs : Sound enc dec) (b1 b2 : Bytes) (x : α)
    (h1 : strict dec b1 = some x) (h2 : strict dec b2 = some x) : b1 = b2 := by
  unfold strict at h1 h2
  split at h1 <;> simp at h1
  split at h2 <;> simp at h2
  rename_i y1 hd1 _ y2 hd2
  subst h1 h2
  have e1 := hs _ _ _ hd1; have e2 := hs _ _ _ hd2
  simp at e1 e2; rw [e1, e2]

/-- and with partial parsing: equal values ⇒ equal consumed prefixes -/
theorem C01_injective_partial {α} (enc : α → Bytes) (dec : Dec α) (hs : Sound enc dec) (b1 b2 : Bytes) (x : α)
    (r1 r2 : Bytes) (h1 : dec b1 = some (x, r1)) (h2 : dec b2 = some (x, r2)) :
    b1.take (b1.length - r1.length) = b2.take (b2.length - r2.length) := by
  rw [← (C01_consumed enc dec hs b1 x r1 h1).1, ← (C01_consumed enc dec hs b2 x r2 h2).1]

/-- every identifier computed from a parsed object by hashing its serialisation commits to the received bytes:
for any function `f` of the serialisation (`H ∘ serialize`), `f (enc x)` is `f` of the consumed bytes -/
theorem C01_ids_commit {α β} (enc : α → Bytes) (dec : Dec α) (hs : Sound enc dec) (f : Bytes → β) (b : Bytes) (x : α)
    (h : strict dec b = some x) : f (enc x) = f b := by
  unfold strict at h
  split at h <;> simp at h
  rename_i y hd; subst h
  have := hs _ _ _ hd; simp at this; rw [this]

/- non-vacuity: a concrete coinbase-style transaction is accepted (test, by kernel evaluation) -/
example : (tx [2, 0, 1, 0xff, 5, 0, 0, 0]).isSome = true := by decide
end C01
