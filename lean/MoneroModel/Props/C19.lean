import MoneroModel.Proofs.Json2
import MoneroModel.Proofs.Json3
import MoneroModel.Proofs.Json5
import MoneroModel.Proofs.Json6
import MoneroModel.Proofs.Json7
import MoneroModel.Proofs.JsonShapes
import MoneroModel.Props.C02
import MoneroModel.Props.C12
import MoneroModel.Props.C15
open Monero Monero.Json
/-! # C19 — serde representations round-trip (feature `serde`) — PARTIAL by nature

Model: `MoneroModel/Model/Json.lean` — a `Json` tree, the readers serde gives to primitive types and to derived structs
and enums (object in any key order, unknown keys ignored, repeated keys refused, sequence form, externally tagged enums,
`Option`, fixed-size arrays, `BigArray`), `…J` / `…FromJson` for every value type of `Model/Tx.lean` / `Model/Block.lean`
in the shapes observed on the library's real `serde_json::to_string` output (compared text-for-text by the harness on
every run), the six amount helper paths of `amount::serde` on top of the C15 text model, and the `Address` impl on top of
the C12 text model.

Trusted, not modelled: the expansion of `serde_derive`, and `serde_json`'s printer and parser (`Json.render` /
`Json.parse` exist only for the driver; no theorem mentions them). So every theorem below is a statement about TREES:
"`from_json(to_json(x)) = x`" is proved as `…FromJson (…J x) = some x`.

`wf…` (Model/Json.lean) says that a model value is a value of the Rust type: keys are 32 bytes, integers fit `u64` /
`u32`, `RctType` is one of the seven variants, a range signature is 6176 bytes, … — nothing about consensus validity. -/
namespace C19

/-! ## leaves -/

/-- `Key` (`{"key":[32 numbers]}`) -/
theorem C19_roundtrip_Key (k : Bytes) (h : k.length = 32) : keyFromJson (keyJ k) = some k := keyFromJson_keyJ k h
/-- `Hash` / `[u8; 32]` (transparent newtype: an array of 32 numbers) -/
theorem C19_roundtrip_Hash (k : Bytes) (h : k.length = 32) : readBytesN 32 (bytesJ k) = some k := readBytesN_bytesJ k 32 h
/-- `Hash8` -/
theorem C19_roundtrip_Hash8 (k : Bytes) (h : k.length = 8) : readBytesN 8 (bytesJ k) = some k := readBytesN_bytesJ k 8 h
/-- `VarInt` (transparent newtype over `u64`: a number) -/
theorem C19_roundtrip_VarInt (n : Nat) (h : n < 2 ^ 64) : readUInt Json.U64 (natJ n) = some n := readUInt_natJ Json.U64 n h
/-- `RawExtraField` (`#[serde(transparent)]` over `Vec<u8>`) -/
theorem C19_roundtrip_RawExtraField (b : Bytes) : readByteVec (bytesJ b) = some b := readByteVec_bytesJ b
/-- `Key64` (`BigArray`: exactly 64 `Key` objects) on its 2048-byte blob -/
theorem C19_roundtrip_Key64 (b : Bytes) (h : b.length = 2048) : key64FromJson (key64J b) = some b := key64_rt b h
/-- `Signature { c, r }` on its 64-byte blob -/
theorem C19_roundtrip_Signature (b : Bytes) (h : b.length = 64) : sigFromJson (sigJ b) = some b := sig_rt b h
/-- `CtKey { mask }` -/
theorem C19_roundtrip_CtKey (k : Bytes) (h : k.length = 32) : ctKeyFromJson (ctKeyJ k) = some k := ctKeyFromJson_ctKeyJ k h
/-- `RctType`: each of the seven unit variants is written as its name and read back -/
theorem C19_roundtrip_RctType (ty : Nat) (h : ty < 7) : rctTypeFromJson (rctTypeJ ty) = some ty := rctType_rt ty h
/-- `subaddress::Index { major, minor }` -/
theorem C19_roundtrip_Index (i : Nat × Nat) (h1 : i.1 < 2 ^ 32) (h2 : i.2 < 2 ^ 32) : indexFromJson (indexJ i) = some i :=
  index_rt i h1 h2

/-! ## transaction prefix -/

theorem C19_roundtrip_TxIn (i : TxIn) (h : Json.wfTxIn i) : txInFromJson (txInJ i) = some i := txIn_rt i h
theorem C19_roundtrip_TxOutTarget (t : Target) (h : Json.wfTarget t) : targetFromJson (targetJ t) = some t := target_rt t h
theorem C19_roundtrip_TxOut (o : TxOut) (h : Json.wfTxOut o) : txOutFromJson (txOutJ o) = some o := txOut_rt o h
theorem C19_roundtrip_TransactionPrefix (p : Prefix) (h : Json.wfPrefix p) : prefixFromJson (prefixJ p) = some p := prefix_rt p h

/-! ## RingCT -/

theorem C19_roundtrip_EcdhInfo (e : Ecdh) (h : Json.wfEcdh e) : ecdhFromJson (ecdhJ e) = some e := ecdh_rt e h
/-- `RctSigBase`, the fee written and read through `amount::serde::as_pico` -/
theorem C19_roundtrip_RctSigBase (b : Base) (h : Json.wfBase b) : baseFromJson (baseJ b) = some b := base_rt b h
/-- `RangeSig { asig: BoroSig { s0, s1, ee }, Ci }` on its 6176-byte blob -/
theorem C19_roundtrip_RangeSig (b : Bytes) (h : b.length = 6176) : rangeSigFromJson (rangeSigJ b) = some b := rangeSig_rt b h
theorem C19_roundtrip_Bulletproof (x : BP) (h : Json.wfBP x) : bpFromJson (bpJ x) = some x := bp_rt x h
theorem C19_roundtrip_BulletproofPlus (x : BPP) (h : Json.wfBPP x) : bppFromJson (bppJ x) = some x := bpp_rt x h
theorem C19_roundtrip_MgSig (m : MG) (h : Json.wfMG m) : mgFromJson (mgJ m) = some m := mg_rt m h
theorem C19_roundtrip_Clsag (c : Clsag) (h : Json.wfClsag c) : clsagFromJson (clsagJ c) = some c := clsag_rt c h
theorem C19_roundtrip_RctSigPrunable (p : Prunable) (h : Json.wfPrunable p) : prunableFromJson (prunableJ p) = some p :=
  prunable_rt p h
/-- `RctSig { sig: Option<_>, p: Option<_> }`: `None` is `null`, and `null` is read as `None` -/
theorem C19_roundtrip_RctSig (b : Option Base) (p : Option Prunable) (hb : ∀ y, b = some y → Json.wfBase y)
    (hp : ∀ y, p = some y → Json.wfPrunable y) : rctSigFromJson (rctSigJ b p) = some (b, p) := rctSig_rt b p hb hp

/-! ## `PublicKey`, `SubField`, `ExtraField` (the parsed form of the extra field; derived impls) -/

/-- `PublicKey { point }`: `{"point":[32 numbers]}` — any 32 bytes (the derived reader does not check that they are a point) -/
theorem C19_roundtrip_PublicKey (k : Bytes) (h : k.length = 32) : publicKeyFromJson (publicKeyJ k) = some k := publicKey_rt k h
/-- `SubField`: newtype variants (`{"Padding":5}`, `{"Nonce":[…]}`, `{"TxPublicKey":{"point":[…]}}`, …) and the tuple variant
`{"MergeMining":[depth,[32 numbers]]}` -/
theorem C19_roundtrip_SubField (f : Extra.SubField) (h : Json.wfSubField f) : subFieldFromJson (subFieldJ f) = some f :=
  subField_rt f h
/-- `ExtraField(Vec<SubField>)` -/
theorem C19_roundtrip_ExtraField (fs : List Extra.SubField) (h : ∀ f ∈ fs, Json.wfSubField f) :
    extraFieldFromJson (extraFieldJ fs) = some fs := extraField_rt fs h
/-- the values of C16 are instances: whatever `SubField::consensus_decode` returns (for any key-validity predicate `vk`, from
any bytes) round-trips through its JSON tree … -/
theorem C19_roundtrip_decoded_SubField (vk : Bytes → Bool) (b r : Bytes) (sf : Extra.SubField)
    (h : Extra.subFieldRd vk b = (some sf, r)) : subFieldFromJson (subFieldJ sf) = some sf :=
  subField_rt sf (subFieldRd_wf vk b sf r h)
/-- … and so does the `ExtraField` that `ExtraField::try_parse` returns for ANY raw extra (complete parse, `Ok`, or salvaged
fields, `Err`). `RawExtraField::try_parse` returns the same fields whichever the flag — in the model BY DEFINITION (second
conjunct, `rfl`: it adds no case of its own, it only names the alias), in the code by unwrapping either side of the `Result` -/
theorem C19_roundtrip_parsed_ExtraField (vk : Bytes → Bool) (e : Bytes) :
    extraFieldFromJson (extraFieldJ (Extra.tryParse vk e).fields) = some (Extra.tryParse vk e).fields ∧
    Extra.rawTryParse vk e = (Extra.tryParse vk e).fields :=
  ⟨extraField_rt _ (tryParse_wf vk e), rfl⟩

/-- a document naming no variant of `SubField` is refused -/
theorem C19_SubField_unknown_variant_refused (tag : String) (c : Json) (h : tag ∉ subFieldNames) :
    subFieldFromJson (.obj [(tag, c)]) = none := by
  simp only [subFieldNames, List.mem_cons, List.not_mem_nil, or_false, not_or] at h
  obtain ⟨h1, h2, h3, h4, h5, h6⟩ := h
  simp only [subFieldFromJson, h1, h2, h3, h4, h5, h6, if_false]

/-- the variant names are pairwise distinct — of `SubField` (so the first matching branch of the `if`-chain of the reader is the
only one) and of `RctType` (so `findIdx?` finds THE variant) -/
theorem C19_variant_names_distinct : subFieldNames.Nodup ∧ rctNames.Nodup := by decide

/-! ## transaction, block -/

theorem C19_roundtrip_Transaction (t : Tx) (h : Json.wfTx t) : txFromJson (txJ t) = some t := tx_rt t h
theorem C19_roundtrip_BlockHeader (h : Header) (hw : Json.wfHeader h) : headerFromJson (headerJ h) = some h := header_rt h hw
theorem C19_roundtrip_Block (b : Block) (h : Json.wfBlock b) : blockFromJson (blockJ b) = some b := block_rt b h

/-! ## the values of C02 are instances: wire-well-formed values and decoded values are values of the Rust type -/

/-- every value that satisfies the wire predicate of C02 (`wfTx` of `Proofs/TxComplete2.lean`, DESIGN.md Appendix B — the
values `serialize` / `deserialize` round-trip) is a value of the Rust type in the sense of `Json.wfTx` -/
theorem C19_wf_of_wire (t : Tx) (h : _root_.wfTx t) : Json.wfTx t := wfTx_of_wire t h
theorem C19_wf_of_wire_Block (b : Block) (h : _root_.wfBlock b) : Json.wfBlock b := wfBlock_of_wire b h
theorem C19_wf_of_wire_TransactionPrefix (p : Prefix) (h : _root_.wfPrefix p) : Json.wfPrefix p := wfPrefix_of_wire p h

/-- whatever the consensus decoders return (from any bytes, with any rest) is a value of the Rust type -/
theorem C19_wf_of_decoded (b r : Bytes) (t : Tx) (h : tx b = some (t, r)) : Json.wfTx t := yields_tx b t r h
theorem C19_wf_of_decoded_Block (b r : Bytes) (x : Block) (h : block b = some (x, r)) : Json.wfBlock x := yields_block b x r h
theorem C19_wf_of_decoded_TransactionPrefix (b r : Bytes) (p : Prefix) (h : prefix' b = some (p, r)) : Json.wfPrefix p :=
  yields_prefix b p r h

/-- **"every value produced by the generators of C02"**: a transaction / block / prefix that satisfies the WF predicate of the
C02 theorems round-trips through its JSON tree … -/
theorem C19_roundtrip_wire (t : Tx) (h : _root_.wfTx t) : txFromJson (txJ t) = some t :=
  C19_roundtrip_Transaction t (C19_wf_of_wire t h)
theorem C19_roundtrip_wire_Block (b : Block) (h : _root_.wfBlock b) : blockFromJson (blockJ b) = some b :=
  C19_roundtrip_Block b (C19_wf_of_wire_Block b h)
theorem C19_roundtrip_wire_TransactionPrefix (p : Prefix) (h : _root_.wfPrefix p) : prefixFromJson (prefixJ p) = some p :=
  C19_roundtrip_TransactionPrefix p (C19_wf_of_wire_TransactionPrefix p h)

/-- … and so does every value that came out of `deserialize` (what the harness feeds to `c19_json tx|block|prefix`) -/
theorem C19_roundtrip_decoded (b r : Bytes) (t : Tx) (h : tx b = some (t, r)) : txFromJson (txJ t) = some t :=
  C19_roundtrip_Transaction t (C19_wf_of_decoded b r t h)
theorem C19_roundtrip_decoded_Block (b r : Bytes) (x : Block) (h : block b = some (x, r)) : blockFromJson (blockJ x) = some x :=
  C19_roundtrip_Block x (C19_wf_of_decoded_Block b r x h)
theorem C19_roundtrip_decoded_TransactionPrefix (b r : Bytes) (p : Prefix) (h : prefix' b = some (p, r)) :
    prefixFromJson (prefixJ p) = some p :=
  C19_roundtrip_TransactionPrefix p (C19_wf_of_decoded_TransactionPrefix b r p h)

/-- the two chained: serialise to consensus bytes, deserialise, write JSON, read JSON — the value is unchanged -/
theorem C19_roundtrip_wire_then_json (t : Tx) (h : _root_.wfTx t) (r : Bytes) :
    ∃ t', tx (encTx t ++ r) = some (t', r) ∧ txFromJson (txJ t') = some t := by
  refine ⟨t, complete_tx t r h, C19_roundtrip_wire t h⟩

/-! ## the shapes are those DECLARED in /repo (relation A)

`Gen/JsonShapes.lean` is regenerated from the current source on every run: every struct / enum deriving `Serialize` /
`Deserialize` with its field / variant identifiers in declaration order, every `serde(..)` attribute, the declared TYPE of every
field (`jsonFieldTypes`), and the `#[cfg(..)]` conditions of derives, attributes, deriving items, ENCLOSING modules and the
hand-written impls. The theorems below tie the hand-written names of `Model/Json.lean` to that table: a renamed, added, removed or
reordered field or variant, a field whose type changes (`nonce: u32` → `u64`, `sig: Option<RctSigBase>` → `RctSigBase`, `[u8; 32]`
→ `Vec<u8>`, …), a new deriving type, a new attribute (`default`, `rename`, `skip…`, `flatten`, `with`, `tag`, …), a new hand-written
impl or another feature condition makes one of them false, i.e. the build of this file fails. (The READERS are tied to the same
names by the round-trip theorems: a reader using another key would not read back what the serialiser writes.)
What the table does NOT pin: which reader the model uses for a type token is the hand-written correspondence listed at
`C19_shape_types` (checked on behaviour by the differential run only); a type defined OUTSIDE the crate (`CompressedEdwardsY`) or renamed is compared by name only. -/

/-- the items of /repo that derive serde impls are exactly the ones listed here, each of the kind listed (the list is typed in; what
ties each NAME to a serialiser of the model: `C19_shape_structs` / `_enums` / `_SubField` for the 26 struct / enum items,
`C19_shape_newtypes` for the five newtype / fixed_hash items) -/
theorem C19_shape_items :
    Gen.jsonShapes.map (fun i => (i.name, i.kind)) =
      [("Block", "struct"), ("BlockHeader", "struct"), ("BoroSig", "struct"), ("Bulletproof", "struct"),
       ("BulletproofPlus", "struct"), ("Clsag", "struct"), ("CtKey", "struct"), ("EcdhInfo", "enum"), ("ExtraField", "newtype"),
       ("Hash", "fixed_hash(32)"), ("Hash8", "fixed_hash(8)"), ("Index", "struct"), ("Key", "struct"), ("Key64", "struct"),
       ("KeyImage", "struct"), ("MgSig", "struct"), ("PublicKey", "struct"), ("RangeSig", "struct"), ("RawExtraField", "newtype"),
       ("RctSig", "struct"), ("RctSigBase", "struct"), ("RctSigPrunable", "struct"), ("RctType", "enum"), ("Signature", "struct"),
       ("SubField", "enum"), ("Transaction", "struct"), ("TransactionPrefix", "struct"), ("TxIn", "enum"), ("TxOut", "struct"),
       ("TxOutTarget", "enum"), ("VarInt", "newtype")] := by decide

/-- the only serde attributes in /repo besides the `crate` path are the three the model implements: `transparent` on
`RawExtraField`, `BigArray` on `Key64.keys`, `as_pico` on `RctSigBase.txn_fee`; and the only hand-written impls are `Address`'s -/
theorem C19_shape_attributes :
    genAttrs = [("Key64", "keys", "with=\"BigArray\""), ("RawExtraField", "", "transparent"),
      ("RctSigBase", "txn_fee", "with=\"crate::util::amount::serde::as_pico\"")] ∧
    Gen.jsonHandWritten = ["Deserialize for Address", "Serialize for Address"] := by decide

/-- "under every configuration": every serde derive and every `serde(..)` attribute in /repo is applied under exactly the
condition `feature = "serde"` — none unconditionally, none under `full` / `experimental` / another feature, and no deriving item
carries a `#[cfg(..)]` of its own (first conjunct); no deriving item sits in a module — inline, or a file declared by an
out-of-line `mod x;` — that carries a `#[cfg(..)]` (second); the two hand-written impls (`Address`) sit under exactly
`#[cfg(feature = "serde")]` (third: the condition of `mod serde_impl`, no further one on the impls); and the only modules whose
condition mentions serde are that one and the helper module `amount::serde` (fourth), both under `feature = "serde"` alone. So the
set of impls, their shapes and the helper functions do not depend on any other feature (statically; the harness builds the crate
with `serde` + the default features only). Not recorded: `#[cfg]` on single functions INSIDE `amount::serde` (none today; a
function compiled out would stop the harness from building, since it names all twelve paths) -/
theorem C19_shape_feature_gate :
    Gen.jsonCfgConditions = ["feature=\"serde\""] ∧
    (∀ i ∈ Gen.jsonShapes, (i.name, []) ∈ Gen.jsonEnclosingCfgs) ∧
    Gen.jsonEnclosingCfgs.filter (fun x => x.2 ≠ []) =
      Gen.jsonHandWritten.map (fun h => (h, ["feature=\"serde\""])) ∧
    Gen.jsonSerdeModules = [("util::address::serde_impl", ["feature=\"serde\""]), ("util::amount::serde", ["feature=\"serde\""])] := by
  decide

/-- every struct is written as an object whose keys are the declared field identifiers, in declaration order — whatever the value -/
theorem C19_shape_structs :
    (∀ k, objKeys (keyJ k) = genFields "Key") ∧ (∀ b, objKeys (key64J b) = genFields "Key64") ∧
    (∀ b, objKeys (sigJ b) = genFields "Signature") ∧ (∀ k, objKeys (ctKeyJ k) = genFields "CtKey") ∧
    (∀ o, objKeys (txOutJ o) = genFields "TxOut") ∧ (∀ p, objKeys (prefixJ p) = genFields "TransactionPrefix") ∧
    (∀ b, objKeys (baseJ b) = genFields "RctSigBase") ∧ (∀ b, objKeys (rangeSigJ b) = genFields "RangeSig") ∧
    (∀ b, (getKey "asig" (rangeSigJ b)).map objKeys = some (genFields "BoroSig")) ∧
    (∀ x, objKeys (bpJ x) = genFields "Bulletproof") ∧ (∀ x, objKeys (bppJ x) = genFields "BulletproofPlus") ∧
    (∀ m, objKeys (mgJ m) = genFields "MgSig") ∧ (∀ c, objKeys (clsagJ c) = genFields "Clsag") ∧
    (∀ p, objKeys (prunableJ p) = genFields "RctSigPrunable") ∧ (∀ b p, objKeys (rctSigJ b p) = genFields "RctSig") ∧
    (∀ t, objKeys (txJ t) = genFields "Transaction") ∧ (∀ h, objKeys (headerJ h) = genFields "BlockHeader") ∧
    (∀ b, objKeys (blockJ b) = genFields "Block") ∧ (∀ i, objKeys (indexJ i) = genFields "Index") ∧
    (∀ k, objKeys (publicKeyJ k) = genFields "PublicKey") :=
  ⟨fun _ => rfl, fun _ => rfl, fun _ => rfl, fun _ => rfl, fun _ => rfl, fun _ => rfl, fun _ => rfl, fun _ => rfl, fun _ => rfl,
   fun _ => rfl, fun _ => rfl, fun _ => rfl, fun _ => rfl, fun _ => rfl, fun _ _ => rfl, fun _ => rfl, fun _ => rfl, fun _ => rfl,
   fun _ => rfl, fun _ => rfl⟩

/-- every enum value is written as `{"Variant": content}` with the declared variant identifier; a struct variant's content has
the declared field identifiers in declaration order (`KeyImage` inside `TxIn::ToKey` too); `RctType`'s unit variants are the
names of the model's table, in declaration order (so the bound 7 of `wfBase` is the number of declared variants) -/
theorem C19_shape_enums :
    (∀ h, structVariantOf (txInJ (.gen h)) = (genVariants "TxIn")[0]?) ∧
    (∀ a o k, structVariantOf (txInJ (.toKey a o k)) = (genVariants "TxIn")[1]?) ∧
    (genVariants "TxIn").length = 2 ∧
    (∀ a o k, ((variantOf (txInJ (.toKey a o k))).bind fun x => getKey "k_image" x.2).map objKeys = some (genFields "KeyImage")) ∧
    (∀ k, structVariantOf (targetJ (.key k)) = (genVariants "TxOutTarget")[0]?) ∧
    (∀ k t, structVariantOf (targetJ (.tagged k t)) = (genVariants "TxOutTarget")[1]?) ∧
    (genVariants "TxOutTarget").length = 2 ∧
    (∀ m a, structVariantOf (ecdhJ (.std m a)) = (genVariants "EcdhInfo")[0]?) ∧
    (∀ a, structVariantOf (ecdhJ (.bp a)) = (genVariants "EcdhInfo")[1]?) ∧
    (genVariants "EcdhInfo").length = 2 ∧
    genVariants "RctType" = rctNames.map (fun n => (n, [])) ∧ rctNames.length = 7 :=
  ⟨fun _ => rfl, fun _ _ _ => rfl, rfl, fun _ _ _ => rfl, fun _ => rfl, fun _ _ => rfl, rfl, fun _ _ => rfl, fun _ => rfl, rfl,
   by decide, rfl⟩

/-- `SubField`: the declared variants are the model's names, five newtype variants and the two-field tuple variant
`MergeMining`; each constructor of the model is written under its variant -/
theorem C19_shape_SubField :
    genVariants "SubField" = [("TxPublicKey", ["0"]), ("Nonce", ["0"]), ("Padding", ["0"]), ("MergeMining", ["0", "1"]),
      ("AdditionalPublickKey", ["0"]), ("MysteriousMinerGate", ["0"])] ∧
    (genVariants "SubField").map (·.1) = subFieldNames ∧
    (∀ k, (variantOf (subFieldJ (.txPub k))).map (·.1) = subFieldNames[0]?) ∧
    (∀ n, (variantOf (subFieldJ (.nonce n))).map (·.1) = subFieldNames[1]?) ∧
    (∀ n, (variantOf (subFieldJ (.padding n))).map (·.1) = subFieldNames[2]?) ∧
    (∀ d h, (variantOf (subFieldJ (.mergeMining d h))).map (·.1) = subFieldNames[3]?) ∧
    (∀ ks, (variantOf (subFieldJ (.addKeys ks))).map (·.1) = subFieldNames[4]?) ∧
    (∀ d, (variantOf (subFieldJ (.minerGate d))).map (·.1) = subFieldNames[5]?) :=
  ⟨by decide, by decide, fun _ => rfl, fun _ => rfl, fun _ => rfl, fun _ _ => rfl, fun _ => rfl, fun _ => rfl⟩

/-- the five newtype / fixed_hash items are written as their CONTENT: `ExtraField` is the array of its sub-fields; `RawExtraField`
(`transparent` over `Vec<u8>`), `VarInt` (over `u64`), `Hash` / `Hash8` (over `[u8; 32]` / `[u8; 8]`) have no serialiser of their
own in the model — wherever a field of such a type occurs, the model writes `bytesJ` / `natJ` of the content (one field of each
type shown; `C19_roundtrip_Hash`, `_Hash8`, `_VarInt`, `_RawExtraField` and the driver's `c19_json hash|hash8|varint` are stated on
`bytesJ` / `natJ` for this reason) -/
theorem C19_shape_newtypes :
    genKind "ExtraField" = "newtype" ∧ genKind "RawExtraField" = "newtype" ∧ genKind "VarInt" = "newtype" ∧
    genKind "Hash" = "fixed_hash(32)" ∧ genKind "Hash8" = "fixed_hash(8)" ∧
    (Gen.jsonShapes.filter fun i => i.kind ≠ "struct" ∧ i.kind ≠ "enum").map (·.name) =
      ["ExtraField", "Hash", "Hash8", "RawExtraField", "VarInt"] ∧
    (∀ fs, extraFieldJ fs = listJ subFieldJ fs) ∧
    (∀ p, getKey "extra" (prefixJ p) = some (bytesJ p.extra)) ∧
    (∀ p, getKey "version" (prefixJ p) = some (natJ p.version)) ∧
    (∀ h, getKey "prev_id" (headerJ h) = some (bytesJ h.prev)) ∧
    (∀ a, ecdhJ (.bp a) = .obj [("Bulletproof", .obj [("amount", bytesJ a)])]) :=
  ⟨by decide, by decide, by decide, by decide, by decide, by decide, fun _ => rfl, fun _ => rfl, fun _ => rfl, fun _ => rfl,
   fun _ => rfl⟩

/-- the declared TYPE of every field and variant field of /repo (items by name, fields in declaration order), in the
spelling-independent form the translator gives it — paths cut to their last segment, `Box<T>` / `&T` as `T`, aliases of the crate
expanded, array lengths evaluated — so that a respelled identical type (`hash::Hash` ↦ `crate::cryptonote::hash::Hash`, `[u8; 32]` ↦
`[u8; KEY_LEN]`) changes nothing here, while `u32` ↦ `u64`, `Option<T>` ↦ `T`, `Hash` ↦ `Hash8`, `Vec<T>` ↦ `[T; n]` do. The
model's reader per type token (hand-written correspondence): `u64`, `VarInt` → `readUInt U64`; `u32` → `readUInt U32`; `u8` →
`readU8` / `readUInt 256`; `[u8;32]`, `Hash`, `CompressedEdwardsY` → `readBytesN 32`; `Hash8` → `readBytesN 8`;
`Vec<u8>`, `RawExtraField` → `readByteVec`; `Vec<T>` → `readVec`; `Option<T>` → `optField` (a missing key is `None`); `[Key;64]`
with `BigArray` → `readArrayN 64`; `Amount` with `as_pico` → `readUInt U64`; a struct / enum name → its `…FromJson` -/
theorem C19_shape_types :
    Gen.jsonFieldTypes =
      [("Block", "", "header", "BlockHeader"), ("Block", "", "miner_tx", "Transaction"), ("Block", "", "tx_hashes", "Vec<Hash>"),
       ("BlockHeader", "", "major_version", "VarInt"), ("BlockHeader", "", "minor_version", "VarInt"),
       ("BlockHeader", "", "timestamp", "VarInt"), ("BlockHeader", "", "prev_id", "Hash"), ("BlockHeader", "", "nonce", "u32"),
       ("BoroSig", "", "s0", "Key64"), ("BoroSig", "", "s1", "Key64"), ("BoroSig", "", "ee", "Key"),
       ("Bulletproof", "", "A", "Key"), ("Bulletproof", "", "S", "Key"), ("Bulletproof", "", "T1", "Key"), ("Bulletproof", "", "T2", "Key"),
       ("Bulletproof", "", "taux", "Key"), ("Bulletproof", "", "mu", "Key"), ("Bulletproof", "", "L", "Vec<Key>"),
       ("Bulletproof", "", "R", "Vec<Key>"), ("Bulletproof", "", "a", "Key"), ("Bulletproof", "", "b", "Key"), ("Bulletproof", "", "t", "Key"),
       ("BulletproofPlus", "", "A", "Key"), ("BulletproofPlus", "", "A1", "Key"), ("BulletproofPlus", "", "B", "Key"),
       ("BulletproofPlus", "", "r1", "Key"), ("BulletproofPlus", "", "s1", "Key"), ("BulletproofPlus", "", "d1", "Key"),
       ("BulletproofPlus", "", "L", "Vec<Key>"), ("BulletproofPlus", "", "R", "Vec<Key>"),
       ("Clsag", "", "s", "Vec<Key>"), ("Clsag", "", "c1", "Key"), ("Clsag", "", "D", "Key"),
       ("CtKey", "", "mask", "Key"),
       ("EcdhInfo", "Standard", "mask", "Key"), ("EcdhInfo", "Standard", "amount", "Key"), ("EcdhInfo", "Bulletproof", "amount", "Hash8"),
       ("ExtraField", "", "0", "Vec<SubField>"), ("Hash", "", "0", "[u8;32]"), ("Hash8", "", "0", "[u8;8]"),
       ("Index", "", "major", "u32"), ("Index", "", "minor", "u32"),
       ("Key", "", "key", "[u8;32]"), ("Key64", "", "keys", "[Key;64]"), ("KeyImage", "", "image", "Hash"),
       ("MgSig", "", "ss", "Vec<Vec<Key>>"), ("MgSig", "", "cc", "Key"),
       ("PublicKey", "", "point", "CompressedEdwardsY"),
       ("RangeSig", "", "asig", "BoroSig"), ("RangeSig", "", "Ci", "Key64"),
       ("RawExtraField", "", "0", "Vec<u8>"),
       ("RctSig", "", "sig", "Option<RctSigBase>"), ("RctSig", "", "p", "Option<RctSigPrunable>"),
       ("RctSigBase", "", "rct_type", "RctType"), ("RctSigBase", "", "txn_fee", "Amount"), ("RctSigBase", "", "pseudo_outs", "Vec<Key>"),
       ("RctSigBase", "", "ecdh_info", "Vec<EcdhInfo>"), ("RctSigBase", "", "out_pk", "Vec<CtKey>"),
       ("RctSigPrunable", "", "range_sigs", "Vec<RangeSig>"), ("RctSigPrunable", "", "bulletproofs", "Vec<Bulletproof>"),
       ("RctSigPrunable", "", "bulletproofplus", "Vec<BulletproofPlus>"), ("RctSigPrunable", "", "MGs", "Vec<MgSig>"),
       ("RctSigPrunable", "", "Clsags", "Vec<Clsag>"), ("RctSigPrunable", "", "pseudo_outs", "Vec<Key>"),
       ("Signature", "", "c", "Key"), ("Signature", "", "r", "Key"),
       ("SubField", "TxPublicKey", "0", "PublicKey"), ("SubField", "Nonce", "0", "Vec<u8>"), ("SubField", "Padding", "0", "u8"),
       ("SubField", "MergeMining", "0", "VarInt"), ("SubField", "MergeMining", "1", "Hash"),
       ("SubField", "AdditionalPublickKey", "0", "Vec<PublicKey>"), ("SubField", "MysteriousMinerGate", "0", "Vec<u8>"),
       ("Transaction", "", "prefix", "TransactionPrefix"), ("Transaction", "", "signatures", "Vec<Vec<Signature>>"),
       ("Transaction", "", "rct_signatures", "RctSig"),
       ("TransactionPrefix", "", "version", "VarInt"), ("TransactionPrefix", "", "unlock_time", "VarInt"),
       ("TransactionPrefix", "", "inputs", "Vec<TxIn>"), ("TransactionPrefix", "", "outputs", "Vec<TxOut>"),
       ("TransactionPrefix", "", "extra", "RawExtraField"),
       ("TxIn", "Gen", "height", "VarInt"), ("TxIn", "ToKey", "amount", "VarInt"), ("TxIn", "ToKey", "key_offsets", "Vec<VarInt>"),
       ("TxIn", "ToKey", "k_image", "KeyImage"),
       ("TxOut", "", "amount", "VarInt"), ("TxOut", "", "target", "TxOutTarget"),
       ("TxOutTarget", "ToKey", "key", "[u8;32]"), ("TxOutTarget", "ToTaggedKey", "key", "[u8;32]"),
       ("TxOutTarget", "ToTaggedKey", "view_tag", "u8"),
       ("VarInt", "", "0", "u64")] := by decide +kernel

/-- the type-dependent behaviour of the model's readers at the places the review named (instances, true by evaluation of the
model — they document which side of each boundary the model takes for the types pinned above; the library's side is compared by the
harness probes `c19_de header|index|txout|rctsig|key64|ecdh`): `nonce: u32` and `Index { u32, u32 }` read `2^32 − 1` and refuse
`2^32`; `view_tag: u8` reads 255 and refuses 256; `RctSig`'s `Option` fields may be missing (`{}` is `(None, None)`) while
`Transaction`'s fields may not; `[Key; 64]` refuses an array of another length; `Hash8` refuses 32 numbers -/
theorem C19_shape_types_boundaries :
    headerFromJson (.obj [("major_version", .num 1), ("minor_version", .num 2), ("timestamp", .num 3),
      ("prev_id", bytesJ (List.replicate 32 7)), ("nonce", .num (2 ^ 32 - 1))]) = some ⟨1, 2, 3, List.replicate 32 7, 2 ^ 32 - 1⟩ ∧
    headerFromJson (.obj [("major_version", .num 1), ("minor_version", .num 2), ("timestamp", .num 3),
      ("prev_id", bytesJ (List.replicate 32 7)), ("nonce", .num (2 ^ 32))]) = none ∧
    indexFromJson (.obj [("major", .num (2 ^ 32 - 1)), ("minor", .num 0)]) = some (2 ^ 32 - 1, 0) ∧
    indexFromJson (.obj [("major", .num (2 ^ 32)), ("minor", .num 0)]) = none ∧
    targetFromJson (.obj [("ToTaggedKey", .obj [("key", bytesJ (List.replicate 32 7)), ("view_tag", .num 255)])]) =
      some (.tagged (List.replicate 32 7) 255) ∧
    targetFromJson (.obj [("ToTaggedKey", .obj [("key", bytesJ (List.replicate 32 7)), ("view_tag", .num 256)])]) = none ∧
    rctSigFromJson (.obj []) = some (none, none) ∧ txFromJson (.obj []) = none ∧
    key64FromJson (.obj [("keys", listJ keyJ (List.replicate 63 (List.replicate 32 7)))]) = none ∧
    ecdhFromJson (.obj [("Bulletproof", .obj [("amount", bytesJ (List.replicate 32 7))])]) = none ∧
    ecdhFromJson (.obj [("Bulletproof", .obj [("amount", bytesJ (List.replicate 8 7))])]) = some (.bp (List.replicate 8 7)) := by
  refine ⟨?_, ?_, ?_, ?_, ?_, ?_, ?_, ?_, ?_, ?_, ?_⟩ <;> rfl

/-! ## amount helpers -/

/-- `as_pico` round-trips every `u64` / every `i64` -/
theorem C19_amount_pico (signed : Bool) (a : Int) (h : InRange signed a) :
    amtFromJson signed .pico (amtJ signed .pico a) = some a := by
  cases signed with
  | true =>
    have h' : -(2 ^ 63 : Int) ≤ a ∧ a < 2 ^ 63 := by simpa [InRange] using h
    simp only [amtFromJson, amtJ, readI64, if_true, if_pos h']
  | false =>
    have h' : 0 ≤ a ∧ a < 2 ^ 64 := by simpa [InRange] using h
    have h2 : 0 ≤ a ∧ a.toNat < Json.U64 := ⟨h'.1, by unfold Json.U64; omega⟩
    simp only [amtFromJson, amtJ, readUInt, Bool.false_eq_true, if_false, if_pos h2, Option.map_some, Int.ofNat_eq_natCast,
      Int.toNat_of_nonneg h'.1]

/-- `as_xmr` writes the exact decimal string of C15 (`to_string_in(Monero)`) and reads it back, for every amount of
magnitude at most `2^63 − 1` -/
theorem C19_amount_xmr (signed : Bool) (a : Int) (h : InRange signed a) (hs : Small a) :
    amtJ signed .xmr a = .str (AmtText.toStringIn signed a .Monero) ∧
    amtFromJson signed .xmr (amtJ signed .xmr a) = some a := by
  have hu : signed = false → 0 ≤ a := by
    intro hf; subst hf; have h' : 0 ≤ a ∧ a < 2 ^ 64 := by simpa [InRange] using h
    exact h'.1
  refine ⟨rfl, ?_⟩
  simp only [amtFromJson, amtJ, readString, C15.C15_parse_fmt signed .Monero a hu hs, Except.toOption]

/-- … and REFUSES on deserialisation what it wrote itself for every larger amount (`u64` above `2^63 − 1`, and `i64::MIN`):
the parsing limit of C15 -/
theorem C19_amount_xmr_refused (signed : Bool) (a : Int) (h : InRange signed a) (hs : ¬ Small a) :
    amtFromJson signed .xmr (amtJ signed .xmr a) = none := by
  have hu : signed = false → 0 ≤ a := by
    intro hf; subst hf; have h' : 0 ≤ a ∧ a < 2 ^ 64 := by simpa [InRange] using h
    exact h'.1
  have hm : a.natAbs > Spec.Decimal.maxAmount := by
    have : Spec.Decimal.maxAmount = 2 ^ 63 - 1 := rfl
    unfold Json.Small at hs; omega
  simp only [amtFromJson, amtJ, readString, C15.C15_parse_eq, (C15.C15_fmt_exact signed .Monero a hu).1,
    AmtText.specParse_specFormat_none signed _ a hm]

/-- a written amount is never `null` -/
theorem C19_amount_not_null (signed : Bool) (e : AmtEnc) (a : Int) : amtJ signed e a ≠ .null := by
  cases e <;> simp [amtJ]

/-- one amount in either encoding: it comes back if it is carried (`as_pico`: always; `as_xmr`: magnitude ≤ `2^63 − 1`) -/
theorem C19_amount_single (signed : Bool) (e : AmtEnc) (a : Int) (h : InRange signed a) (hc : Carried e a) :
    amtFromJson signed e (amtJ signed e a) = some a := by
  cases e with
  | pico => exact C19_amount_pico signed a h
  | xmr =>
    have hs : Small a := by
      rcases hc with hc | hc
      · cases hc
      · exact hc
    exact (C19_amount_xmr signed a h hs).2

/-- the `opt` modules: `None` is `null`, `Some(a)` is the single representation, and both come back -/
theorem C19_amount_opt (signed : Bool) (e : AmtEnc) (x : Option Int)
    (h : ∀ a, x = some a → InRange signed a ∧ Carried e a) :
    amtOptFromJson signed e (amtOptJ signed e x) = some x := by
  cases x with
  | none => rfl
  | some a =>
    obtain ⟨h1, h2⟩ := h a rfl
    have := C19_amount_single signed e a h1 h2
    simp only [amtOptFromJson, amtOptJ]
    cases hj : amtJ signed e a with
    | null => exact absurd hj (C19_amount_not_null signed e a)
    | _ => simp only [readOption, ← hj, this, Option.map_some]

/-- the `slice` (write) + `vec` (read) modules: an array of the single representations, read back element by element -/
theorem C19_amount_vec (signed : Bool) (e : AmtEnc) (xs : List Int)
    (h : ∀ a ∈ xs, InRange signed a ∧ Carried e a) :
    amtVecFromJson signed e (amtVecJ signed e xs) = some xs := by
  simp only [amtVecFromJson, amtVecJ]
  apply mapOpt_map
  intro a ha
  obtain ⟨h1, h2⟩ := h a ha
  exact C19_amount_single signed e a h1 h2

/-- … and a sequence containing one amount above the limit is refused as a whole when written as monero strings -/
theorem C19_amount_vec_refused (signed : Bool) (xs : List Int) (a : Int) (ha : a ∈ xs) (h : InRange signed a)
    (hs : ¬ Small a) : amtVecFromJson signed .xmr (amtVecJ signed .xmr xs) = none := by
  simp only [amtVecFromJson, amtVecJ]
  apply mapOpt_none _ _ (amtJ signed .xmr a) (List.mem_map.mpr ⟨a, ha, rfl⟩)
  exact C19_amount_xmr_refused signed a h hs

/-- the sequence reader reads every element exactly like the single-amount reader — whatever the JSON element is, in
particular a string that was written with escape sequences or handed over as an owned string by a non-borrowing
deserialiser (`serde_json::from_reader`, `from_value`). (Before the fix of `as_xmr::vec` the element reader asked for a
borrowed `&str` and refused those; the harness cases `c19_amount_de … vec` with escapes and `c19_amount_rd` are the
regression test.) BY DEFINITION of the model (`amtElemFromJson` is `amtFromJson`; `rfl`) — a remark about how the model is
written, not evidence about the code, hence no `C19_` name: what ties it to the library is the harness (`c19_amount_de … vec` with
escapes, `c19_amount_rd`, and the plain / opt / vec agreement checks) -/
theorem amount_vec_reads_like_single (signed : Bool) (e : AmtEnc) (js : List Json) :
    amtVecFromJson signed e (.arr js) = mapOpt (amtFromJson signed e) js := rfl

/-- the same six paths used the documented way, as fields of a struct (`HasAmount { amount }`, `{ amounts }`) -/
theorem C19_amount_in_struct (signed : Bool) (e : AmtEnc) :
    (∀ a, InRange signed a → Carried e a → hasAmountFromJson signed e (hasAmountJ signed e a) = some a) ∧
    (∀ x, (∀ a, x = some a → InRange signed a ∧ Carried e a) →
      hasOptAmountFromJson signed e (hasOptAmountJ signed e x) = some x) ∧
    (∀ xs, (∀ a ∈ xs, InRange signed a ∧ Carried e a) → hasAmountsFromJson signed e (hasAmountsJ signed e xs) = some xs) := by
  refine ⟨fun a h hc => ?_, fun x h => ?_, fun xs h => ?_⟩
  · simp only [hasAmountFromJson, hasAmountJ, fieldsOf_one, req, C19_amount_single signed e a h hc]
  · simp only [hasOptAmountFromJson, hasOptAmountJ, fieldsOf_one, C19_amount_opt signed e x h]
  · simp only [hasAmountsFromJson, hasAmountsJ, fieldsOf_one, C19_amount_vec signed e xs h]

/-- **the amount helpers.** Piconero integers round-trip every `u64` and every `i64`; monero strings are the exact decimal
strings of C15, round-trip exactly the amounts of magnitude ≤ `2^63 − 1` and are refused on deserialisation above that;
options (`null` / value) and sequences (arrays) behave element-wise -/
theorem C19_amount_helpers (signed : Bool) :
    (∀ a, InRange signed a → amtFromJson signed .pico (amtJ signed .pico a) = some a) ∧
    (∀ a, InRange signed a → Small a → amtFromJson signed .xmr (amtJ signed .xmr a) = some a) ∧
    (∀ a, InRange signed a → ¬ Small a → amtFromJson signed .xmr (amtJ signed .xmr a) = none) ∧
    (∀ e x, (∀ a, x = some a → InRange signed a ∧ Carried e a) → amtOptFromJson signed e (amtOptJ signed e x) = some x) ∧
    (∀ e xs, (∀ a ∈ xs, InRange signed a ∧ Carried e a) → amtVecFromJson signed e (amtVecJ signed e xs) = some xs) :=
  ⟨C19_amount_pico signed, fun a h hs => (C19_amount_xmr signed a h hs).2, C19_amount_xmr_refused signed,
   C19_amount_opt signed, C19_amount_vec signed⟩

/-! ## amount helpers, stated against the SPECIFICATION of C15 (`Spec/Decimal.lean`) -/

/-- `as_xmr` writes THE exact decimal string of the specification (`Spec.Decimal.specFormat 12`: sign, integer part
`|a| div 10^12`, a point and exactly twelve fraction digits), for every `u64` / `i64` — the clause "exact decimal strings",
no longer only "the string `to_string_in` produces" -/
theorem C19_amount_xmr_exact (signed : Bool) (a : Int) (h : InRange signed a) :
    amtJ signed .xmr a = .str (Spec.Decimal.specFormat 12 a) := by
  have hu : signed = false → 0 ≤ a := by
    intro hf; subst hf; have h' : 0 ≤ a ∧ a < 2 ^ 64 := by simpa [InRange] using h
    exact h'.1
  simp only [amtJ, (C15.C15_fmt_exact signed .Monero a hu).1]
  rfl

/-- `as_xmr` reads ANY JSON string — not only one it wrote — exactly as the specification's parser for twelve decimals
does (plain or escaped in the JSON text), and refuses everything that is not a string -/
theorem C19_amount_xmr_reads_spec (signed : Bool) (j : Json) :
    (∀ s, (j = .str s ∨ j = .strEsc s) → amtFromJson signed .xmr j = Spec.Decimal.specParse signed 12 s) ∧
    ((∀ s, j ≠ .str s ∧ j ≠ .strEsc s) → amtFromJson signed .xmr j = none) := by
  refine ⟨fun s hj => ?_, fun hns => ?_⟩
  · have := C15.C15_parse_eq signed .Monero s
    rcases hj with rfl | rfl <;> simp only [amtFromJson, readString, this] <;> rfl
  · cases j with
    | str s => exact absurd rfl (hns s).1
    | strEsc s => exact absurd rfl (hns s).2
    | _ => rfl

/-- the parsing limit on ARBITRARY input: whatever `as_xmr` accepts has magnitude at most `2^63 − 1` (so an unsigned result
never exceeds `i64::MAX`, a signed one is never `i64::MIN`), is non-negative for `Amount`, and is a value of the Rust type -/
theorem C19_amount_xmr_cap (signed : Bool) (j : Json) (r : Int) (h : amtFromJson signed .xmr j = some r) :
    Small r ∧ (signed = false → 0 ≤ r) ∧ InRange signed r := by
  have hs : ∃ s, AmtText.fromStrIn signed s .Monero = .ok r := by
    cases j with
    | str s =>
      refine ⟨s, ?_⟩
      simp only [amtFromJson, readString] at h
      cases hf : AmtText.fromStrIn signed s .Monero with
      | ok v => rw [hf] at h; simp only [Except.toOption, Option.some.injEq] at h; rw [h]
      | error e => rw [hf] at h; simp [Except.toOption] at h
    | strEsc s =>
      refine ⟨s, ?_⟩
      simp only [amtFromJson, readString] at h
      cases hf : AmtText.fromStrIn signed s .Monero with
      | ok v => rw [hf] at h; simp only [Except.toOption, Option.some.injEq] at h; rw [h]
      | error e => rw [hf] at h; simp [Except.toOption] at h
    | _ => simp [amtFromJson, readString] at h
  obtain ⟨s, hs⟩ := hs
  cases signed with
  | false =>
    have := C15.C15_unsigned_cap .Monero s r hs
    refine ⟨by unfold Json.Small; omega, fun _ => this.1, ?_⟩
    simp only [InRange, Bool.false_eq_true, if_false]; omega
  | true =>
    have := C15.C15_signed_cap .Monero s r hs
    refine ⟨by unfold Json.Small; omega, fun hf => (by cases hf), ?_⟩
    simp only [InRange, if_true]; omega

/-- options: `Some(a)` above the limit, written as a monero string, is refused on deserialisation (as plain and sequence are) -/
theorem C19_amount_opt_refused (signed : Bool) (a : Int) (h : InRange signed a) (hs : ¬ Small a) :
    amtOptFromJson signed .xmr (amtOptJ signed .xmr (some a)) = none := by
  have := C19_amount_xmr_refused signed a h hs
  simp only [amtOptFromJson, amtOptJ]
  cases hj : amtJ signed .xmr a with
  | null => exact absurd hj (C19_amount_not_null signed .xmr a)
  | _ => simp only [readOption, ← hj, this, Option.map_none]

/-- the documented struct usage above the limit: all three wrappers refuse what they wrote themselves -/
theorem C19_amount_in_struct_refused (signed : Bool) (a : Int) (h : InRange signed a) (hs : ¬ Small a) :
    hasAmountFromJson signed .xmr (hasAmountJ signed .xmr a) = none ∧
    hasOptAmountFromJson signed .xmr (hasOptAmountJ signed .xmr (some a)) = none ∧
    (∀ xs, a ∈ xs → hasAmountsFromJson signed .xmr (hasAmountsJ signed .xmr xs) = none) := by
  refine ⟨?_, ?_, fun xs hx => ?_⟩
  · simp only [hasAmountFromJson, hasAmountJ, fieldsOf_one, req, C19_amount_xmr_refused signed a h hs]
  · simp only [hasOptAmountFromJson, hasOptAmountJ, fieldsOf_one, C19_amount_opt_refused signed a h hs]
  · simp only [hasAmountsFromJson, hasAmountsJ, fieldsOf_one, C19_amount_vec_refused signed xs a hx h hs]

/-- a missing field: refused for the plain wrapper (no `default`), `None` / empty for the `#[serde(default, …)]` wrappers —
BY DEFINITION of the model (the `[none]` arms of `hasOptAmountFromJson` / `hasAmountsFromJson` ARE the model's reading of
`#[serde(default)]`; `rfl`), recorded as documentation of that reading, not as evidence, hence no `C19_` name; the library's side is
observed by the harness documents `{}` and `[]` of `c19_amount_de` -/
theorem amount_struct_missing_field (signed : Bool) (e : AmtEnc) :
    hasAmountFromJson signed e (.obj []) = none ∧ hasOptAmountFromJson signed e (.obj []) = some none ∧
    hasAmountsFromJson signed e (.obj []) = some [] := ⟨rfl, rfl, rfl⟩

/-! ## address -/

/-- the JSON of a (constructible) address is the string of C12 — `Display`, i.e. Monero's base58 text — and deserialising
it returns the address -/
theorem C19_address_json (H : Bytes → Bytes) (vk : Bytes → Bool) (a : Address) (hw : Address.WF vk a)
    (hH : ∀ x, 4 ≤ (H x).length) :
    ∃ s, Address.toStr H a = some s ∧ s = Spec.Address.text H a.net a.kind a.spend a.view a.pid ∧
      addrJ H a = some (.str s) ∧ addrFromJson H vk (.str s) = some a := by
  obtain ⟨s, h1, h2⟩ := C12.C12_str_roundtrip H vk a hw hH
  have h3 := C12.C12_str_is_monero H vk a hw
  refine ⟨s, h1, ?_, ?_, ?_⟩
  · rw [h1] at h3; exact Option.some.inj h3
  · simp only [addrJ, h1, Option.map_some]
  · simp only [addrFromJson, readString, h2]

/-- invalid input is refused: whatever `Deserialize for Address` accepts is a JSON string, and that string is THE canonical
text of the (well-formed) address returned; in particular every text `FromStr` refuses, and every non-string, is refused -/
theorem C19_invalid_address_refused (H : Bytes → Bytes) (vk : Bytes → Bool) (j : Json) :
    (∀ a, addrFromJson H vk j = some a →
      ∃ s, (j = .str s ∨ j = .strEsc s) ∧ Address.toStr H a = some s ∧ Address.WF vk a) ∧
    (∀ s, (j = .str s ∨ j = .strEsc s) → Address.fromStr H vk s = none → addrFromJson H vk j = none) ∧
    ((∀ s, j ≠ .str s ∧ j ≠ .strEsc s) → addrFromJson H vk j = none) := by
  refine ⟨fun a h => ?_, fun s hj hn => ?_, fun hns => ?_⟩
  · have key : ∀ s, Address.fromStr H vk s = some a → Address.toStr H a = some s ∧ Address.WF vk a := by
      intro s hs
      refine ⟨C12.C12_str_canonical H vk s a hs, ?_⟩
      unfold Address.fromStr at hs
      cases hd : B58.decode s with
      | none => simp [hd] at hs
      | some b => simp only [hd] at hs; exact C12.C12_bytes_wf H vk b a hs
    cases j with
    | str s => exact ⟨s, Or.inl rfl, key s (by simpa [addrFromJson, readString] using h)⟩
    | strEsc s => exact ⟨s, Or.inr rfl, key s (by simpa [addrFromJson, readString] using h)⟩
    | _ => simp [addrFromJson, readString] at h
  · rcases hj with rfl | rfl <;> simp only [addrFromJson, readString, hn]
  · cases j with
    | str s => exact absurd rfl (hns s).1
    | strEsc s => exact absurd rfl (hns s).2
    | _ => rfl

/-! ## the hypotheses are satisfiable / the statements are not vacuous -/

example : Json.wfTx ⟨⟨2, 0, [.gen 5], [⟨7, .tagged (List.replicate 32 1) 9⟩], [1, 2, 3]⟩, [], some ⟨0, 0, [], [], []⟩, none⟩ := by
  simp [Json.wfTx, Json.wfPrefix, Json.wfTxIn, Json.wfTxOut, Json.wfTarget, Json.wfBase, Json.U64]
example : txJ ⟨⟨2, 0, [.gen 5], [], [1]⟩, [], none, none⟩ =
    .obj [("prefix", .obj [("version", .num 2), ("unlock_time", .num 0),
            ("inputs", .arr [.obj [("Gen", .obj [("height", .num 5)])]]), ("outputs", .arr []), ("extra", .arr [.num 1])]),
          ("signatures", .arr []), ("rct_signatures", .obj [("sig", .null), ("p", .null)])] := rfl
example : _root_.wfTx ⟨⟨2, 0, [], [], []⟩, [], none, none⟩ := by
  simp [_root_.wfTx, _root_.wfPrefix, VecOK, _root_.U64, Monero.CAP, Gen.CAP]
example : ∃ b t r, tx b = some (t, r) :=
  ⟨_, _, [], complete_tx ⟨⟨2, 0, [], [], []⟩, [], none, none⟩ [] (by simp [_root_.wfTx, _root_.wfPrefix, VecOK, _root_.U64, Monero.CAP, Gen.CAP])⟩
/-- the WIRE predicate of `C19_wf_of_wire` / `C19_roundtrip_wire` / `C19_roundtrip_wire_then_json` and the hypothesis of the
`_decoded` theorems hold of a transaction with a KEY input, a Clsag base and a prunable part (C02's witness, `C02_wf_inhabited`);
its prefix and a block carrying it as `miner_tx` with one transaction hash satisfy the wire predicates of the prefix / block
theorems and are returned by the decoders -/
example : ∃ t, _root_.wfTx t ∧ t.pre.ins ≠ [] ∧ t.base.map (·.ty) = some 5 ∧ (∃ b, tx b = some (t, [])) ∧
    _root_.wfPrefix t.pre ∧ (∃ b, prefix' b = some (t.pre, [])) ∧
    (∃ x : Block, x.miner = t ∧ x.hashes ≠ [] ∧ _root_.wfBlock x ∧ ∃ b, block b = some (x, [])) := by
  have hm : (2, some 5, C02.sampleBytes 2 ([5, 0] ++ [0] ++ List.replicate 96 0 ++ List.replicate 32 0)) ∈ C02.samples := by
    simp [C02.samples]
  obtain ⟨t, hw, _, hb, hi, hs⟩ := C02.C02_wf_inhabited _ hm
  have hx : _root_.wfBlock ⟨⟨1, 2, 3, List.replicate 32 0, 7⟩, t, [List.replicate 32 9]⟩ := by
    have u (n : Nat) (h : n < 2^64) : _root_.U64 n := h
    refine ⟨⟨u 1 (by decide), u 2 (by decide), u 3 (by decide), by simp [Key32], (by decide : (7 : Nat) < 2 ^ 32)⟩, hw, ?_,
      (by decide : 1 * sizes.key ≤ CAP), (by decide : 1 < 2 ^ 64)⟩
    intro k hk; simp at hk; subst hk; simp [Key32]
  refine ⟨t, hw, hi, hb, ⟨_, strict_some.mp hs⟩, hw.1, ⟨encPrefix t.pre, ?_⟩,
    ⟨⟨⟨1, 2, 3, List.replicate 32 0, 7⟩, t, [List.replicate 32 9]⟩, rfl, ?_, hx,
      ⟨encBlock ⟨⟨1, 2, 3, List.replicate 32 0, 7⟩, t, [List.replicate 32 9]⟩, ?_⟩⟩⟩
  · simpa using complete_prefix t.pre [] hw.1
  · simp
  · simpa using complete_block _ [] hx
example : Extra.subFieldRd (fun _ => true) [0x02, 0x01, 0xaa] = (some (.nonce [0xaa]), []) := by decide
example : (Extra.tryParse (fun _ => true) [0x02, 0x01, 0xaa, 0x00, 0x00]).fields = [.nonce [0xaa], .padding 1] := by decide
/-- hypothesis of `C19_amount_xmr_cap`: the reader accepts something, and the accepted value is what the text says -/
example : amtFromJson false .xmr (.str (ascii "1.5")) = some 1500000000000 := by decide
example : amtFromJson true .xmr (.strEsc (ascii "-0.000000000001")) = some (-1) := by decide
/-- `Json.owned` bites on a borrowing reader and on none of the model's readers: `readBorrowedStr` (what `as_xmr::vec` asked for
before its fix) refuses an owned string, `readString` (every reader of the model today) does not distinguish — which is why the
`rd` / `val` / `slice` columns of `c19_json_rd` are, on the model side, the same prediction as `rt` -/
example : readBorrowedStr (owned 1 (.str [0x31])) = none ∧ readBorrowedStr (.str [0x31]) = some [0x31] ∧
    readString (owned 1 (.str [0x31])) = readString (.str [0x31]) := ⟨rfl, rfl, rfl⟩
/-- hypothesis of `C19_SubField_unknown_variant_refused` -/
example : "Padding2" ∉ subFieldNames ∧ "padding" ∉ subFieldNames := by decide
example : ∀ f ∈ [Extra.SubField.txPub (List.replicate 32 7), .nonce [1, 2], .padding 255, .mergeMining (2 ^ 64 - 1) (List.replicate 32 0),
    .addKeys [List.replicate 32 1], .minerGate []], Json.wfSubField f := by
  simp [Json.wfSubField, Json.U64]
example : subFieldJ (.mergeMining 7 [1, 2]) = .obj [("MergeMining", .arr [.num 7, .arr [.num 1, .num 2]])] := rfl
example : InRange false (2 ^ 64 - 1) ∧ ¬ Json.Small (2 ^ 64 - 1) := by
  refine ⟨by simp [InRange], ?_⟩
  unfold Json.Small; omega
example : InRange true (-(2 ^ 63)) ∧ ¬ Json.Small (-(2 ^ 63)) := by
  refine ⟨by simp [InRange], ?_⟩
  unfold Json.Small; omega
example : InRange true (-(2 ^ 63 - 1)) ∧ Json.Small (-(2 ^ 63 - 1)) := by
  refine ⟨by simp [InRange], ?_⟩
  unfold Json.Small; omega

end C19
