import MoneroModel.Proofs.Json2
import MoneroModel.Proofs.Json3
import MoneroModel.Props.C12
import MoneroModel.Props.C15
open Monero Monero.Json
/-! # C19 — serde representations round-trip (feature `serde`) — PARTIAL by nature

Model: `MoneroModel/Model/Json.lean` — a `Json` tree, the readers serde gives to primitive types and to derived structs
and enums (object in any key order, unknown keys ignored, repeated keys refused, sequence form, externally tagged enums,
`Option`, fixed-size arrays, `BigArray`), `…J` / `…FromJson` for every value type of `Model/Tx.lean` / `Model/Block.lean`
in the shapes observed on the library's real `serde_json::to_string` output (compared text-for-text by the harness on
every run), the six amount helper paths of `amount::serde` on top of the C15 text model, and the `Address` impl on top of
the C12 text model.

Trusted, not modelled: the expansion of `serde_derive`, and `serde_json`'s printer and parser (`Json.render` /
`Json.parse` exist only for the driver; no theorem mentions them). So every theorem below is a statement about TREES:
"`from_json(to_json(x)) = x`" is proved as `…FromJson (…J x) = some x`.

`wf…` (Model/Json.lean) says that a model value is a value of the Rust type: keys are 32 bytes, integers fit `u64` /
`u32`, `RctType` is one of the seven variants, a range signature is 6176 bytes, … — nothing about consensus validity. -/
namespace C19

/-! ## leaves -/

/-- `Key` (`{"key":[32 numbers]}`) -/
theorem C19_roundtrip_Key (k : Bytes) (h : k.length = 32) : keyFromJson (keyJ k) = some k := keyFromJson_keyJ k h
/-- `Hash` / `[u8; 32]` (transparent newtype: an array of 32 numbers) -/
theorem C19_roundtrip_Hash (k : Bytes) (h : k.length = 32) : readBytesN 32 (bytesJ k) = some k := readBytesN_bytesJ k 32 h
/-- `Hash8` -/
theorem C19_roundtrip_Hash8 (k : Bytes) (h : k.length = 8) : readBytesN 8 (bytesJ k) = some k := readBytesN_bytesJ k 8 h
/-- `VarInt` (transparent newtype over `u64`: a number) -/
theorem C19_roundtrip_VarInt (n : Nat) (h : n < 2 ^ 64) : readUInt Json.U64 (natJ n) = some n := readUInt_natJ Json.U64 n h
/-- `RawExtraField` (`#[serde(transparent)]` over `Vec<u8>`) -/
theorem C19_roundtrip_RawExtraField (b : Bytes) : readByteVec (bytesJ b) = some b := readByteVec_bytesJ b
/-- `Key64` (`BigArray`: exactly 64 `Key` objects) on its 2048-byte blob -/
theorem C19_roundtrip_Key64 (b : Bytes) (h : b.length = 2048) : key64FromJson (key64J b) = some b := key64_rt b h
/-- `Signature { c, r }` on its 64-byte blob -/
theorem C19_roundtrip_Signature (b : Bytes) (h : b.length = 64) : sigFromJson (sigJ b) = some b := sig_rt b h
/-- `CtKey { mask }` -/
theorem C19_roundtrip_CtKey (k : Bytes) (h : k.length = 32) : ctKeyFromJson (ctKeyJ k) = some k := ctKeyFromJson_ctKeyJ k h
/-- `RctType`: each of the seven unit variants is written as its name and read back -/
theorem C19_roundtrip_RctType (ty : Nat) (h : ty < 7) : rctTypeFromJson (rctTypeJ ty) = some ty := rctType_rt ty h
/-- `subaddress::Index { major, minor }` -/
theorem C19_roundtrip_Index (i : Nat × Nat) (h1 : i.1 < 2 ^ 32) (h2 : i.2 < 2 ^ 32) : indexFromJson (indexJ i) = some i :=
  index_rt i h1 h2

/-! ## transaction prefix -/

theorem C19_roundtrip_TxIn (i : TxIn) (h : Json.wfTxIn i) : txInFromJson (txInJ i) = some i := txIn_rt i h
theorem C19_roundtrip_TxOutTarget (t : Target) (h : Json.wfTarget t) : targetFromJson (targetJ t) = some t := target_rt t h
theorem C19_roundtrip_TxOut (o : TxOut) (h : Json.wfTxOut o) : txOutFromJson (txOutJ o) = some o := txOut_rt o h
theorem C19_roundtrip_TransactionPrefix (p : Prefix) (h : Json.wfPrefix p) : prefixFromJson (prefixJ p) = some p := prefix_rt p h

/-! ## RingCT -/

theorem C19_roundtrip_EcdhInfo (e : Ecdh) (h : Json.wfEcdh e) : ecdhFromJson (ecdhJ e) = some e := ecdh_rt e h
/-- `RctSigBase`, the fee written and read through `amount::serde::as_pico` -/
theorem C19_roundtrip_RctSigBase (b : Base) (h : Json.wfBase b) : baseFromJson (baseJ b) = some b := base_rt b h
/-- `RangeSig { asig: BoroSig { s0, s1, ee }, Ci }` on its 6176-byte blob -/
theorem C19_roundtrip_RangeSig (b : Bytes) (h : b.length = 6176) : rangeSigFromJson (rangeSigJ b) = some b := rangeSig_rt b h
theorem C19_roundtrip_Bulletproof (x : BP) (h : Json.wfBP x) : bpFromJson (bpJ x) = some x := bp_rt x h
theorem C19_roundtrip_BulletproofPlus (x : BPP) (h : Json.wfBPP x) : bppFromJson (bppJ x) = some x := bpp_rt x h
theorem C19_roundtrip_MgSig (m : MG) (h : Json.wfMG m) : mgFromJson (mgJ m) = some m := mg_rt m h
theorem C19_roundtrip_Clsag (c : Clsag) (h : Json.wfClsag c) : clsagFromJson (clsagJ c) = some c := clsag_rt c h
theorem C19_roundtrip_RctSigPrunable (p : Prunable) (h : Json.wfPrunable p) : prunableFromJson (prunableJ p) = some p :=
  prunable_rt p h
/-- `RctSig { sig: Option<_>, p: Option<_> }`: `None` is `null`, and `null` is read as `None` -/
theorem C19_roundtrip_RctSig (b : Option Base) (p : Option Prunable) (hb : ∀ y, b = some y → Json.wfBase y)
    (hp : ∀ y, p = some y → Json.wfPrunable y) : rctSigFromJson (rctSigJ b p) = some (b, p) := rctSig_rt b p hb hp

/-! ## transaction, block -/

theorem C19_roundtrip_Transaction (t : Tx) (h : Json.wfTx t) : txFromJson (txJ t) = some t := tx_rt t h
theorem C19_roundtrip_BlockHeader (h : Header) (hw : Json.wfHeader h) : headerFromJson (headerJ h) = some h := header_rt h hw
theorem C19_roundtrip_Block (b : Block) (h : Json.wfBlock b) : blockFromJson (blockJ b) = some b := block_rt b h

/-! ## amount helpers -/

/-- `as_pico` round-trips every `u64` / every `i64` -/
theorem C19_amount_pico (signed : Bool) (a : Int) (h : InRange signed a) :
    amtFromJson signed .pico (amtJ signed .pico a) = some a := by
  cases signed with
  | true =>
    have h' : -(2 ^ 63 : Int) ≤ a ∧ a < 2 ^ 63 := by simpa [InRange] using h
    simp only [amtFromJson, amtJ, readI64, if_true, if_pos h']
  | false =>
    have h' : 0 ≤ a ∧ a < 2 ^ 64 := by simpa [InRange] using h
    have h2 : 0 ≤ a ∧ a.toNat < Json.U64 := ⟨h'.1, by unfold Json.U64; omega⟩
    simp only [amtFromJson, amtJ, readUInt, Bool.false_eq_true, if_false, if_pos h2, Option.map_some, Int.ofNat_eq_natCast,
      Int.toNat_of_nonneg h'.1]

/-- `as_xmr` writes the exact decimal string of C15 (`to_string_in(Monero)`) and reads it back, for every amount of
magnitude at most `2^63 − 1` -/
theorem C19_amount_xmr (signed : Bool) (a : Int) (h : InRange signed a) (hs : Small a) :
    amtJ signed .xmr a = .str (AmtText.toStringIn signed a .Monero) ∧
    amtFromJson signed .xmr (amtJ signed .xmr a) = some a := by
  have hu : signed = false → 0 ≤ a := by
    intro hf; subst hf; have h' : 0 ≤ a ∧ a < 2 ^ 64 := by simpa [InRange] using h
    exact h'.1
  refine ⟨rfl, ?_⟩
  simp only [amtFromJson, amtJ, readString, C15.C15_parse_fmt signed .Monero a hu hs, Except.toOption]

/-- … and REFUSES on deserialisation what it wrote itself for every larger amount (`u64` above `2^63 − 1`, and `i64::MIN`):
the parsing limit of C15 -/
theorem C19_amount_xmr_refused (signed : Bool) (a : Int) (h : InRange signed a) (hs : ¬ Small a) :
    amtFromJson signed .xmr (amtJ signed .xmr a) = none := by
  have hu : signed = false → 0 ≤ a := by
    intro hf; subst hf; have h' : 0 ≤ a ∧ a < 2 ^ 64 := by simpa [InRange] using h
    exact h'.1
  have hm : a.natAbs > Spec.Decimal.maxAmount := by
    have : Spec.Decimal.maxAmount = 2 ^ 63 - 1 := rfl
    unfold Json.Small at hs; omega
  simp only [amtFromJson, amtJ, readString, C15.C15_parse_eq, (C15.C15_fmt_exact signed .Monero a hu).1,
    AmtText.specParse_specFormat_none signed _ a hm]

/-- a written amount is never `null` -/
theorem C19_amount_not_null (signed : Bool) (e : AmtEnc) (a : Int) : amtJ signed e a ≠ .null := by
  cases e <;> simp [amtJ]

/-- one amount in either encoding: it comes back if it is carried (`as_pico`: always; `as_xmr`: magnitude ≤ `2^63 − 1`) -/
theorem C19_amount_single (signed : Bool) (e : AmtEnc) (a : Int) (h : InRange signed a) (hc : Carried e a) :
    amtFromJson signed e (amtJ signed e a) = some a := by
  cases e with
  | pico => exact C19_amount_pico signed a h
  | xmr =>
    have hs : Small a := by
      rcases hc with hc | hc
      · cases hc
      · exact hc
    exact (C19_amount_xmr signed a h hs).2

/-- the `opt` modules: `None` is `null`, `Some(a)` is the single representation, and both come back -/
theorem C19_amount_opt (signed : Bool) (e : AmtEnc) (x : Option Int)
    (h : ∀ a, x = some a → InRange signed a ∧ Carried e a) :
    amtOptFromJson signed e (amtOptJ signed e x) = some x := by
  cases x with
  | none => rfl
  | some a =>
    obtain ⟨h1, h2⟩ := h a rfl
    have := C19_amount_single signed e a h1 h2
    simp only [amtOptFromJson, amtOptJ]
    cases hj : amtJ signed e a with
    | null => exact absurd hj (C19_amount_not_null signed e a)
    | _ => simp only [readOption, ← hj, this, Option.map_some]

/-- the `slice` (write) + `vec` (read) modules: an array of the single representations, read back element by element -/
theorem C19_amount_vec (signed : Bool) (e : AmtEnc) (xs : List Int)
    (h : ∀ a ∈ xs, InRange signed a ∧ Carried e a) :
    amtVecFromJson signed e (amtVecJ signed e xs) = some xs := by
  simp only [amtVecFromJson, amtVecJ]
  apply mapOpt_map
  intro a ha
  obtain ⟨h1, h2⟩ := h a ha
  exact C19_amount_single signed e a h1 h2

/-- … and a sequence containing one amount above the limit is refused as a whole when written as monero strings -/
theorem C19_amount_vec_refused (signed : Bool) (xs : List Int) (a : Int) (ha : a ∈ xs) (h : InRange signed a)
    (hs : ¬ Small a) : amtVecFromJson signed .xmr (amtVecJ signed .xmr xs) = none := by
  simp only [amtVecFromJson, amtVecJ]
  apply mapOpt_none _ _ (amtJ signed .xmr a) (List.mem_map.mpr ⟨a, ha, rfl⟩)
  exact C19_amount_xmr_refused signed a h hs

/-- the sequence reader reads every element exactly like the single-amount reader — whatever the JSON element is, in
particular a string that was written with escape sequences or handed over as an owned string by a non-borrowing
deserialiser (`serde_json::from_reader`, `from_value`). (Before the fix of `as_xmr::vec` the element reader asked for a
borrowed `&str` and refused those; the harness cases `c19_amount_de … vec` with escapes and `c19_amount_rd` are the
regression test.) -/
theorem C19_amount_vec_reads_like_single (signed : Bool) (e : AmtEnc) (js : List Json) :
    amtVecFromJson signed e (.arr js) = mapOpt (amtFromJson signed e) js := rfl

/-- the same six paths used the documented way, as fields of a struct (`HasAmount { amount }`, `{ amounts }`) -/
theorem C19_amount_in_struct (signed : Bool) (e : AmtEnc) :
    (∀ a, InRange signed a → Carried e a → hasAmountFromJson signed e (hasAmountJ signed e a) = some a) ∧
    (∀ x, (∀ a, x = some a → InRange signed a ∧ Carried e a) →
      hasOptAmountFromJson signed e (hasOptAmountJ signed e x) = some x) ∧
    (∀ xs, (∀ a ∈ xs, InRange signed a ∧ Carried e a) → hasAmountsFromJson signed e (hasAmountsJ signed e xs) = some xs) := by
  refine ⟨fun a h hc => ?_, fun x h => ?_, fun xs h => ?_⟩
  · simp only [hasAmountFromJson, hasAmountJ, fieldsOf_one, req, C19_amount_single signed e a h hc]
  · simp only [hasOptAmountFromJson, hasOptAmountJ, fieldsOf_one, C19_amount_opt signed e x h]
  · simp only [hasAmountsFromJson, hasAmountsJ, fieldsOf_one, C19_amount_vec signed e xs h]

/-- **the amount helpers.** Piconero integers round-trip every `u64` and every `i64`; monero strings are the exact decimal
strings of C15, round-trip exactly the amounts of magnitude ≤ `2^63 − 1` and are refused on deserialisation above that;
options (`null` / value) and sequences (arrays) behave element-wise -/
theorem C19_amount_helpers (signed : Bool) :
    (∀ a, InRange signed a → amtFromJson signed .pico (amtJ signed .pico a) = some a) ∧
    (∀ a, InRange signed a → Small a → amtFromJson signed .xmr (amtJ signed .xmr a) = some a) ∧
    (∀ a, InRange signed a → ¬ Small a → amtFromJson signed .xmr (amtJ signed .xmr a) = none) ∧
    (∀ e x, (∀ a, x = some a → InRange signed a ∧ Carried e a) → amtOptFromJson signed e (amtOptJ signed e x) = some x) ∧
    (∀ e xs, (∀ a ∈ xs, InRange signed a ∧ Carried e a) → amtVecFromJson signed e (amtVecJ signed e xs) = some xs) :=
  ⟨C19_amount_pico signed, fun a h hs => (C19_amount_xmr signed a h hs).2, C19_amount_xmr_refused signed,
   C19_amount_opt signed, C19_amount_vec signed⟩

/-! ## address -/

/-- the JSON of a (constructible) address is the string of C12 — `Display`, i.e. Monero's base58 text — and deserialising
it returns the address -/
theorem C19_address_json (H : Bytes → Bytes) (vk : Bytes → Bool) (a : Address) (hw : Address.WF vk a)
    (hH : ∀ x, 4 ≤ (H x).length) :
    ∃ s, Address.toStr H a = some s ∧ s = Spec.Address.text H a.net a.kind a.spend a.view a.pid ∧
      addrJ H a = some (.str s) ∧ addrFromJson H vk (.str s) = some a := by
  obtain ⟨s, h1, h2⟩ := C12.C12_str_roundtrip H vk a hw hH
  have h3 := C12.C12_str_is_monero H vk a hw
  refine ⟨s, h1, ?_, ?_, ?_⟩
  · rw [h1] at h3; exact Option.some.inj h3
  · simp only [addrJ, h1, Option.map_some]
  · simp only [addrFromJson, readString, h2]

/-- invalid input is refused: whatever `Deserialize for Address` accepts is a JSON string, and that string is THE canonical
text of the (well-formed) address returned; in particular every text `FromStr` refuses, and every non-string, is refused -/
theorem C19_invalid_address_refused (H : Bytes → Bytes) (vk : Bytes → Bool) (j : Json) :
    (∀ a, addrFromJson H vk j = some a →
      ∃ s, (j = .str s ∨ j = .strEsc s) ∧ Address.toStr H a = some s ∧ Address.WF vk a) ∧
    (∀ s, (j = .str s ∨ j = .strEsc s) → Address.fromStr H vk s = none → addrFromJson H vk j = none) ∧
    ((∀ s, j ≠ .str s ∧ j ≠ .strEsc s) → addrFromJson H vk j = none) := by
  refine ⟨fun a h => ?_, fun s hj hn => ?_, fun hns => ?_⟩
  · have key : ∀ s, Address.fromStr H vk s = some a → Address.toStr H a = some s ∧ Address.WF vk a := by
      intro s hs
      refine ⟨C12.C12_str_canonical H vk s a hs, ?_⟩
      unfold Address.fromStr at hs
      cases hd : B58.decode s with
      | none => simp [hd] at hs
      | some b => simp only [hd] at hs; exact C12.C12_bytes_wf H vk b a hs
    cases j with
    | str s => exact ⟨s, Or.inl rfl, key s (by simpa [addrFromJson, readString] using h)⟩
    | strEsc s => exact ⟨s, Or.inr rfl, key s (by simpa [addrFromJson, readString] using h)⟩
    | _ => simp [addrFromJson, readString] at h
  · rcases hj with rfl | rfl <;> simp only [addrFromJson, readString, hn]
  · cases j with
    | str s => exact absurd rfl (hns s).1
    | strEsc s => exact absurd rfl (hns s).2
    | _ => rfl

/-! ## the hypotheses are satisfiable / the statements are not vacuous -/

example : Json.wfTx ⟨⟨2, 0, [.gen 5], [⟨7, .tagged (List.replicate 32 1) 9⟩], [1, 2, 3]⟩, [], some ⟨0, 0, [], [], []⟩, none⟩ := by
  simp [Json.wfTx, Json.wfPrefix, Json.wfTxIn, Json.wfTxOut, Json.wfTarget, Json.wfBase, Json.U64]
example : txJ ⟨⟨2, 0, [.gen 5], [], [1]⟩, [], none, none⟩ =
    .obj [("prefix", .obj [("version", .num 2), ("unlock_time", .num 0),
            ("inputs", .arr [.obj [("Gen", .obj [("height", .num 5)])]]), ("outputs", .arr []), ("extra", .arr [.num 1])]),
          ("signatures", .arr []), ("rct_signatures", .obj [("sig", .null), ("p", .null)])] := rfl
example : InRange false (2 ^ 64 - 1) ∧ ¬ Json.Small (2 ^ 64 - 1) := by
  refine ⟨by simp [InRange], ?_⟩
  unfold Json.Small; omega
example : InRange true (-(2 ^ 63)) ∧ ¬ Json.Small (-(2 ^ 63)) := by
  refine ⟨by simp [InRange], ?_⟩
  unfold Json.Small; omega
example : InRange true (-(2 ^ 63 - 1)) ∧ Json.Small (-(2 ^ 63 - 1)) := by
  refine ⟨by simp [InRange], ?_⟩
  unfold Json.Small; omega

end C19
