import MoneroModel.Proofs.ScanAmounts
import MoneroModel.Proofs.GroupInstance
import MoneroModel.Proofs.EdwardsLawful
open Monero Monero.Scan
/-! # C08 — recovered amounts are the sender's, and always open the on-chain commitment

Model: `MoneroModel/Model/Scan.lean` (`ecdhDecode`, `xorAmount`, `maskOf`, `commit`, `openCommitment`, `openStep`, the
pipeline `go`, `Owned.amount`) as the code is at HEAD of /repo (legacy branch: `Hs(k)` and `Hs(Hs(k))`, after the fix commit).
Sender: `Spec/Amounts.lean` (`legacyEncode`, `compactEncode`, `compactMask`, `commitment`: Monero's `ecdhEncode` by the book)
and `Spec/Sender.lean`, instantiated with the same primitives (`specPrims ops`). Every theorem holds for every `Lawful ops`.

Side conditions stated in the theorems: `2^64 ≤ l ≤ 2^256` (amounts are scalars; scalars fit 32 bytes), Keccak returns at
least 8 bytes (compact branch), and `decP Gen.pointH = some H` (the constant `H` decompresses: otherwise the Rust `unwrap`
panics). `decP` is dalek's permissive decompression applied to on-chain commitments: ANY function is allowed here, the
theorems are about the point it returns. -/
namespace C08
variable {P : Type} [AddCommGroup P] {ops : CryptoOps P}

omit [AddCommGroup P] in
/-- **Legacy (64-byte) round trip.** For every amount `a < 2^64`, mask `y < l` and shared scalar `k`: decoding the sender's
`(y + Hs(k), a + Hs(Hs(k)))` returns exactly `(a, y)`; and for every receiver `(v, R, i)` whose shared scalar
`Hs(enc(8·v·R) ‖ varint i)` is `k`, `open_commitment` against the commitment `C = y·G + a·H` succeeds with amount `a`, blinding
factor `y` and commitment `C`. -/
theorem C08_legacy_roundtrip (decP : Bytes → Option P) (H : P) (hH : decP Gen.pointH = some H)
    (hl64 : 2 ^ 64 ≤ ops.l) (hl256 : ops.l ≤ 2 ^ 256) (a y k : Nat) (ha : a < 2 ^ 64) (hy : y < ops.l) :
    ecdhDecode ops (.std (Spec.Amounts.legacyEncode (specPrims ops) k y a).1 (Spec.Amounts.legacyEncode (specPrims ops) k y a).2) k
      = (a, y) ∧
    ∀ v R i, rvnScalar ops (derive ops v R) i = k →
      openCommitment ops decP
          (.std (Spec.Amounts.legacyEncode (specPrims ops) k y a).1 (Spec.Amounts.legacyEncode (specPrims ops) k y a).2)
          v R i (Spec.Amounts.commitment (specPrims ops) H y a)
        = some ⟨a, y, ops.enc (Spec.Amounts.commitment (specPrims ops) H y a)⟩ := by
  have hd := ecdhDecode_legacy ops k y a hy ha hl64 hl256
  refine ⟨hd, ?_⟩
  intro v R i hk
  exact openCommitment_complete ops decP _ v R i _ H hH a y (by rw [hk]; exact hd) rfl

omit [AddCommGroup P] in
/-- **Compact (8-byte) round trip.** For every amount `a < 2^64` and shared scalar `k`: decoding the sender's
`a_le8 XOR Keccak("amount" ‖ k)[0..8]` returns exactly `a` with the derived mask `Hs("commitment_mask" ‖ k)`; and
`open_commitment` against `C = mask·G + a·H` succeeds with that amount, mask and commitment. -/
theorem C08_compact_roundtrip (decP : Bytes → Option P) (H : P) (hH : decP Gen.pointH = some H)
    (hk8 : ∀ m, 8 ≤ (ops.keccak m).length) (a k : Nat) (ha : a < 2 ^ 64) :
    ecdhDecode ops (.bp (Spec.Amounts.compactEncode (specPrims ops) k a)) k
      = (a, Spec.Amounts.compactMask (specPrims ops) k) ∧
    ∀ v R i, rvnScalar ops (derive ops v R) i = k →
      openCommitment ops decP (.bp (Spec.Amounts.compactEncode (specPrims ops) k a)) v R i
          (Spec.Amounts.commitment (specPrims ops) H (Spec.Amounts.compactMask (specPrims ops) k) a)
        = some ⟨a, Spec.Amounts.compactMask (specPrims ops) k,
            ops.enc (Spec.Amounts.commitment (specPrims ops) H (Spec.Amounts.compactMask (specPrims ops) k) a)⟩ := by
  have hd := ecdhDecode_compact ops k a ha hk8
  refine ⟨hd, ?_⟩
  intro v R i hk
  exact openCommitment_complete ops decP _ v R i _ H hH a _ (by rw [hk]; exact hd) rfl

/-- **End to end with the sender of C07.** The sender pays the wallet's address at index `(i,j)` with secret `r` at position
`n` (published key `txKey r dest + T`, `8·T = 0`), so the shared scalar is `k = Hs(enc(8·r·V_d) ‖ varint n)`. If the RingCT
base (type ≠ Null) carries at position `n` the sender's encoding of `(a, y)` under `k` — legacy — or of `a` — compact, with
`y` the derived mask — and a commitment that decompresses to `y·G + a·H`, then the opening step of the scan for that output
returns amount `a`, blinding factor `y` and that commitment. -/
theorem C08_sender_roundtrip (L : Lawful ops) (decP : Bytes → Option P) (H : P) (hH : decP Gen.pointH = some H)
    (hl64 : 2 ^ 64 ≤ ops.l) (hl256 : ops.l ≤ 2 ^ 256) (hk8 : ∀ m, 8 ≤ (ops.keccak m).length)
    (v : Nat) (S : P) (i j r n : Nat) (T : P) (hT : 8 • T = 0) (a y : Nat) (ha : a < 2 ^ 64) (hy : y < ops.l)
    (b : Base) (hty : b.ty ≠ 0) (cb : Bytes) (hcb : b.outPk[n]? = some cb)
    (k : Nat) (hk : k = Spec.Sender.derivationScalar (specPrims ops)
        (Spec.Sender.derivation (specPrims ops) r (Spec.Sender.destAt (specPrims ops) v S i j).view) n)
    (hcase :
      (b.ecdh[n]? = some (.std (Spec.Amounts.legacyEncode (specPrims ops) k y a).1 (Spec.Amounts.legacyEncode (specPrims ops) k y a).2)) ∨
      (b.ecdh[n]? = some (.bp (Spec.Amounts.compactEncode (specPrims ops) k a)) ∧ y = Spec.Amounts.compactMask (specPrims ops) k))
    (hC : decP cb = some (Spec.Amounts.commitment (specPrims ops) H y a)) :
    openStep ops decP v (some b) n
        (ops.enc (Spec.Sender.txKey (specPrims ops) r (Spec.Sender.destAt (specPrims ops) v S i j) + T))
      = .ok (some ⟨a, y, ops.enc (Spec.Amounts.commitment (specPrims ops) H y a)⟩) := by
  have hs := shared_scalar_sender L v S i j r n T hT
  rw [← hk] at hs
  unfold openStep
  simp only [hty, if_false, hcb, hC, L.dec_enc]
  rcases hcase with he | ⟨he, hym⟩
  · rw [he]; simp only
    rw [(C08_legacy_roundtrip decP H hH hl64 hl256 a y k ha hy).2 v _ n hs]
  · rw [he]; simp only
    subst hym
    rw [(C08_compact_roundtrip decP H hH hk8 a k ha).2 v _ n hs]

/-- **Opening soundness, for arbitrary bytes.** Whatever the `ecdh_info` and commitment bytes are: in an `Ok` result every
reported output `w` either belongs to a scan without RingCT data (no base, or type `Null`) and has no opening, or carries an
opening `(a', y', C')` with `y'·G + a'·H = C` where `C` is the point the on-chain commitment bytes at position `w.index`
decompress to, `C' = enc C`, and `amount()`, `blinding_factor()`, `commitment()` return exactly these. There is no third
case: if the opening of a matched output fails, the scan returns an error (`C07_errors`) and no amounts at all. -/
theorem C08_opening_sound (L : Lawful ops) (decP : Bytes → Option P) (p : Prefix) (v : Nat) (S : P) (a b c d : Nat)
    (base : Option Base) (ws : List Owned) (h : checkOutputsPrefix ops decP p v S a b c d base = .ok ws) :
    ∀ w ∈ ws,
      ((base = none ∨ ∃ bb, base = some bb ∧ bb.ty = 0) ∧ w.opening = none) ∨
      (∃ bb o cb C H, base = some bb ∧ bb.ty ≠ 0 ∧ w.opening = some o ∧
        bb.outPk[w.index]? = some cb ∧ decP cb = some C ∧ decP Gen.pointH = some H ∧
        o.mask • ops.base + o.amount • H = C ∧ o.commitment = ops.enc C ∧
        w.amount = some o.amount ∧ w.blindingFactor = some o.mask ∧ w.commitment = some (ops.enc C)) := by
  obtain ⟨Rm, _, hgo⟩ := prefix_ok ops decP p v S a b c d base ws h
  intro w hw
  obtain ⟨j, _, _, hidx, _, hop⟩ := go_ok_sound ops decP _ base Rm p.outs 0 _ ws hgo w hw
  rw [new_v] at hop
  rcases openStep_cases L decP v base (0 + j) w.txKey with ⟨e, he⟩ | ⟨hn, hb⟩ | ⟨o, bb, e, cb, C, H, R, ho, hbase, hty, _, hcb, hC, hH, _, hopen, hcomm, _⟩
  · rw [he] at hop; cases hop
  · rw [hn] at hop; left; exact ⟨hb, (Except.ok.inj hop).symm⟩
  · rw [ho] at hop
    have hw' : w.opening = some o := (Except.ok.inj hop).symm
    right
    refine ⟨bb, o, cb, C, H, hbase, hty, hw', by rw [hidx]; exact hcb, hC, hH, hopen, hcomm, ?_, ?_, ?_⟩
    · unfold Owned.amount; rw [hw']
    · unfold Owned.blindingFactor; rw [hw']; rfl
    · unfold Owned.commitment; rw [hw', ← hcomm]; rfl

omit [AddCommGroup P] in
/-- **Clear amounts.** Without RingCT data — version-1 transactions and version-2 transactions without inputs have no base,
coinbase transactions have type `Null` — every reported output has no opening, no blinding factor, no commitment, and its
amount is the clear amount of the output at that position: `a > 0 ↦ Some(a)`, `0 ↦ None`. -/
theorem C08_clear_amounts (decP : Bytes → Option P) (p : Prefix) (v : Nat) (S : P) (a b c d : Nat)
    (base : Option Base) (hb : base = none ∨ ∃ bb, base = some bb ∧ bb.ty = 0) (ws : List Owned)
    (h : checkOutputsPrefix ops decP p v S a b c d base = .ok ws) :
    ∀ w ∈ ws, ∃ hi : w.index < p.outs.length, w.out = p.outs[w.index] ∧
      w.opening = none ∧ w.blindingFactor = none ∧ w.commitment = none ∧
      w.amount = (if p.outs[w.index].amount = 0 then none else some p.outs[w.index].amount) := by
  obtain ⟨Rm, _, hgo⟩ := prefix_ok ops decP p v S a b c d base ws h
  intro w hw
  obtain ⟨j, hj, _, hidx, hout, hop⟩ := go_ok_sound ops decP _ base Rm p.outs 0 _ ws hgo w hw
  rw [openStep_clear ops decP base _ _ _ hb] at hop
  have hw' : w.opening = none := (Except.ok.inj hop).symm
  rw [Nat.zero_add] at hidx
  subst hidx
  refine ⟨hj, hout, hw', ?_, ?_, ?_⟩
  · unfold Owned.blindingFactor; rw [hw']; rfl
  · unfold Owned.commitment; rw [hw']; rfl
  · unfold Owned.amount; rw [hw', hout]

/-- the hypotheses are satisfiable together: a lawful instance with the order of Ed25519 (`2^64 ≤ l ≤ 2^256`), a hash
returning 32 bytes, and a decompression accepting `H` -/
example : ∃ (Q : Type) (_ : AddCommGroup Q) (o : CryptoOps Q) (decP : Bytes → Option Q) (H : Q),
    Lawful o ∧ 2 ^ 64 ≤ o.l ∧ o.l ≤ 2 ^ 256 ∧ (∀ m, 8 ≤ (o.keccak m).length) ∧ decP Gen.pointH = some H :=
  ⟨_, _, { zmodOps with keccak := fun _ => List.replicate 32 0 }, fun _ => some 1, 1,
    ⟨zmodOps_lawful.add_eq, zmodOps_lawful.sub_eq, zmodOps_lawful.smul_eq, zmodOps_lawful.l_gt, zmodOps_lawful.base_order,
      zmodOps_lawful.enc_inj, zmodOps_lawful.dec_enc⟩,
    by show 2 ^ 64 ≤ Ed.l; unfold Ed.l; omega, by show Ed.l ≤ 2 ^ 256; unfold Ed.l; omega,
    fun _ => by simp, rfl⟩

/-! ### Ed25519 itself: `Lawful` is a theorem, not an assumption

`Proofs/EdwardsGroup.lean` proves that the affine twisted Edwards curve −x² + y² = 1 + d·x²·y² over GF(2^255 − 19) with the
complete addition law is an abelian group (d is a non-square, −1 a square; associativity by explicit polynomial
certificates); `Proofs/EdwardsRef*.lean` that the executable reference arithmetic `Ref/Ed25519.lean` (extended coordinates,
double-and-add, RFC 8032 compression) computes in that group; `Proofs/EdwardsLawful.lean` that the resulting primitives
record `edOps` (points = curve points, `l·G = 0`, injective encoding accepted by `dec`) is `Lawful`, and that the instance
the compiled driver runs (`Drv.refOps`) refines it operation by operation. The theorems below are the theorems of this
file with that instance plugged in: no hypothesis about the group is left. (That curve25519-dalek computes the same
functions as `Ref/Ed25519.lean` remains a differential tie — dalek is a dependency.) -/
section Ed25519
open Monero.Edw

/-- the constant `H` of the CURRENT SOURCE (regenerated from src/util/key.rs on every run) is Monero's second generator -/
theorem C08_H_is_monero : Gen.pointH = Spec.Amounts.moneroH := by decide

set_option maxRecDepth 100000 in
private theorem H_decodes_ref : (Ed.decodePt Gen.pointH).isSome = true := by decide +kernel

/-- … and it is the canonical encoding of a curve point: the hypothesis `decP Gen.pointH = some H` of the theorems above
is a fact for Ed25519 (so `H.point.decompress().unwrap()` in `open_commitment` cannot panic) -/
theorem C08_H_decodes : ∃ H : EdPoint, decPoint Gen.pointH = some H ∧ edOps.dec = decPoint := by
  cases h : Ed.decodePt Gen.pointH with
  | none => have := H_decodes_ref; rw [h] at this; cases this
  | some P => exact ⟨_, decPoint_some h, rfl⟩

theorem C08_ed25519_lawful : Lawful edOps ∧ RefinesEd Drv.refOps := ⟨edOps_lawful, refOps_refines_edOps⟩
theorem C08_sender_roundtrip_ed25519 : type_of% (@C08_sender_roundtrip EdPoint _ edOps edOps_lawful) := C08_sender_roundtrip edOps_lawful
theorem C08_opening_sound_ed25519 : type_of% (@C08_opening_sound EdPoint _ edOps edOps_lawful) := C08_opening_sound edOps_lawful
end Ed25519
end C08
