import MoneroModel.Proofs.ScanAmounts
import MoneroModel.Proofs.ScanMore
import MoneroModel.Props.C07
import MoneroModel.Proofs.GroupInstance
import MoneroModel.Proofs.EdwardsLawful
import MoneroModel.Proofs.EdwardsPermissive
import MoneroModel.Proofs.TxDecodedWF
open Monero Monero.Scan
/-! # C08 — recovered amounts are the sender's, and always open the on-chain commitment

Model: `MoneroModel/Model/Scan.lean` (`ecdhDecode`, `xorAmount`, `maskOf`, `commit`, `openCommitment`, `openStep`, the
pipeline `go`, `Owned.amount`) as the code is at HEAD of /repo (legacy branch: `Hs(k)` and `Hs(Hs(k))`, after the fix commit).
Sender: `Spec/Amounts.lean` (`legacyEncode`, `compactEncode`, `compactMask`, `commitment`: Monero's `ecdhEncode` by the book)
and `Spec/Sender.lean`, instantiated with the same primitives (`specPrims ops`). Every theorem holds for every `Lawful ops`.

What the round trips prove and what they do not. The content of `C08_legacy_roundtrip` / `C08_compact_roundtrip` is the DECODE half
(the model's `ecdhDecode` inverts the independently written sender encodings of Spec/Amounts.lean). The "passes the commitment
check" half is true by construction: `Spec.Amounts.commitment (specPrims ops) H y a` and the model's `commit` are the same term
(`commit_eq_spec` is `rfl`) and `H` is whatever `decP Gen.pointH` returns on both sides, so a symmetric slip (G and H, or mask and
amount, exchanged alike in spec and model) would not be seen by them. Such a slip is excluded by `C08_opening_sound` (stated in
group notation: `o.mask • base + o.amount • H = C`), by `C08_H_is_monero`, and by the harness's separately written commitment on dalek.

Side conditions stated in the theorems: `2^64 ≤ l ≤ 2^256` (amounts are scalars; scalars fit 32 bytes), Keccak returns at
least 8 bytes (compact branch), and `decP Gen.pointH = some H` (the constant `H` decompresses: otherwise the Rust `unwrap`
panics). `decP` is dalek's permissive decompression applied to on-chain commitments: ANY function is allowed here, the
theorems are about the point it returns. -/
namespace C08
variable {P : Type} [AddCommGroup P] {ops : CryptoOps P}

omit [AddCommGroup P] in
/-- **Legacy (64-byte) round trip.** For every amount `a < 2^64`, mask `y < l` and shared scalar `k`: decoding the sender's
`(y + Hs(k), a + Hs(Hs(k)))` returns exactly `(a, y)`; and for every receiver `(v, R, i)` whose shared scalar
`Hs(enc(8·v·R) ‖ varint i)` is `k`, `open_commitment` against the commitment `C = y·G + a·H` succeeds with amount `a`, blinding
factor `y` and commitment `C`. -/
theorem C08_legacy_roundtrip (decP : Bytes → Option P) (H : P) (hH : decP Gen.pointH = some H)
    (hl64 : 2 ^ 64 ≤ ops.l) (hl256 : ops.l ≤ 2 ^ 256) (a y k : Nat) (ha : a < 2 ^ 64) (hy : y < ops.l) :
    ecdhDecode ops (.std (Spec.Amounts.legacyEncode (specPrims ops) k y a).1 (Spec.Amounts.legacyEncode (specPrims ops) k y a).2) k
      = (a, y) ∧
    ∀ v R i, rvnScalar ops (derive ops v R) i = k →
      openCommitment ops decP
          (.std (Spec.Amounts.legacyEncode (specPrims ops) k y a).1 (Spec.Amounts.legacyEncode (specPrims ops) k y a).2)
          v R i (Spec.Amounts.commitment (specPrims ops) H y a)
        = some ⟨a, y, ops.enc (Spec.Amounts.commitment (specPrims ops) H y a)⟩ := by
  have hd := ecdhDecode_legacy ops k y a hy ha hl64 hl256
  refine ⟨hd, ?_⟩
  intro v R i hk
  exact openCommitment_complete ops decP _ v R i _ H hH a y (by rw [hk]; exact hd) rfl

omit [AddCommGroup P] in
/-- **Compact (8-byte) round trip.** For every amount `a < 2^64` and shared scalar `k`: decoding the sender's
`a_le8 XOR Keccak("amount" ‖ k)[0..8]` returns exactly `a` with the derived mask `Hs("commitment_mask" ‖ k)`; and
`open_commitment` against `C = mask·G + a·H` succeeds with that amount, mask and commitment. -/
theorem C08_compact_roundtrip (decP : Bytes → Option P) (H : P) (hH : decP Gen.pointH = some H)
    (hk8 : ∀ m, 8 ≤ (ops.keccak m).length) (a k : Nat) (ha : a < 2 ^ 64) :
    ecdhDecode ops (.bp (Spec.Amounts.compactEncode (specPrims ops) k a)) k
      = (a, Spec.Amounts.compactMask (specPrims ops) k) ∧
    ∀ v R i, rvnScalar ops (derive ops v R) i = k →
      openCommitment ops decP (.bp (Spec.Amounts.compactEncode (specPrims ops) k a)) v R i
          (Spec.Amounts.commitment (specPrims ops) H (Spec.Amounts.compactMask (specPrims ops) k) a)
        = some ⟨a, Spec.Amounts.compactMask (specPrims ops) k,
            ops.enc (Spec.Amounts.commitment (specPrims ops) H (Spec.Amounts.compactMask (specPrims ops) k) a)⟩ := by
  have hd := ecdhDecode_compact ops k a ha hk8
  refine ⟨hd, ?_⟩
  intro v R i hk
  exact openCommitment_complete ops decP _ v R i _ H hH a _ (by rw [hk]; exact hd) rfl

/-- **End to end with the sender of C07.** The sender pays the wallet's address at index `(i,j)` with secret `r` at position
`n` (published key `txKey r dest + T`, `8·T = 0`), so the shared scalar is `k = Hs(enc(8·r·V_d) ‖ varint n)`. If the RingCT
base (type ≠ Null) carries at position `n` the sender's encoding of `(a, y)` under `k` — legacy — or of `a` — compact, with
`y` the derived mask — and a commitment that decompresses to `y·G + a·H`, then the opening step of the scan for that output
returns amount `a`, blinding factor `y` and that commitment. -/
theorem C08_sender_roundtrip (L : Lawful ops) (decP : Bytes → Option P) (H : P) (hH : decP Gen.pointH = some H)
    (hl64 : 2 ^ 64 ≤ ops.l) (hl256 : ops.l ≤ 2 ^ 256) (hk8 : ∀ m, 8 ≤ (ops.keccak m).length)
    (v : Nat) (S : P) (i j r n : Nat) (T : P) (hT : 8 • T = 0) (a y : Nat) (ha : a < 2 ^ 64) (hy : y < ops.l)
    (b : Base) (hty : b.ty ≠ 0) (cb : Bytes) (hcb : b.outPk[n]? = some cb)
    (k : Nat) (hk : k = Spec.Sender.derivationScalar (specPrims ops)
        (Spec.Sender.derivation (specPrims ops) r (Spec.Sender.destAt (specPrims ops) v S i j).view) n)
    (hcase :
      (b.ecdh[n]? = some (.std (Spec.Amounts.legacyEncode (specPrims ops) k y a).1 (Spec.Amounts.legacyEncode (specPrims ops) k y a).2)) ∨
      (b.ecdh[n]? = some (.bp (Spec.Amounts.compactEncode (specPrims ops) k a)) ∧ y = Spec.Amounts.compactMask (specPrims ops) k))
    (hC : decP cb = some (Spec.Amounts.commitment (specPrims ops) H y a)) :
    openStep ops decP v (some b) n
        (ops.enc (Spec.Sender.txKey (specPrims ops) r (Spec.Sender.destAt (specPrims ops) v S i j) + T))
      = .ok (some ⟨a, y, ops.enc (Spec.Amounts.commitment (specPrims ops) H y a)⟩) := by
  have hs := shared_scalar_sender L v S i j r n T hT
  rw [← hk] at hs
  unfold openStep
  simp only [hty, if_false, hcb, hC, L.dec_enc]
  rcases hcase with he | ⟨he, hym⟩
  · rw [he]; simp only
    rw [(C08_legacy_roundtrip decP H hH hl64 hl256 a y k ha hy).2 v _ n hs]
  · rw [he]; simp only
    subst hym
    rw [(C08_compact_roundtrip decP H hH hk8 a k ha).2 v _ n hs]

/-- **Opening soundness, for arbitrary bytes.** Whatever the `ecdh_info` and commitment bytes are: in an `Ok` result every
reported output `w` either belongs to a scan without RingCT data (no base, or type `Null`) and has no opening, or carries an
opening `(a', y', C')` with `y'·G + a'·H = C` where `C` is the point the on-chain commitment bytes at position `w.index`
decompress to, `C' = enc C`, and `amount()`, `blinding_factor()`, `commitment()` return exactly these. There is no third
case: if the opening of a matched output fails, the scan returns an error (`C07_errors`) and no amounts at all. -/
theorem C08_opening_sound (L : Lawful ops) (decP : Bytes → Option P) (p : Prefix) (v : Nat) (S : P) (a b c d : Nat)
    (base : Option Base) (ws : List Owned) (h : checkOutputsPrefix ops decP p v S a b c d base = .ok ws) :
    ∀ w ∈ ws,
      ((base = none ∨ ∃ bb, base = some bb ∧ bb.ty = 0) ∧ w.opening = none) ∨
      (∃ bb o cb C H, base = some bb ∧ bb.ty ≠ 0 ∧ w.opening = some o ∧
        bb.outPk[w.index]? = some cb ∧ decP cb = some C ∧ decP Gen.pointH = some H ∧
        o.mask • ops.base + o.amount • H = C ∧ o.commitment = ops.enc C ∧
        w.amount = some o.amount ∧ w.blindingFactor = some o.mask ∧ w.commitment = some (ops.enc C)) := by
  obtain ⟨Rm, _, hgo⟩ := prefix_ok ops decP p v S a b c d base ws h
  intro w hw
  obtain ⟨j, _, _, hidx, _, hop⟩ := go_ok_sound ops decP _ base Rm p.outs 0 _ ws hgo w hw
  rw [new_v] at hop
  rcases openStep_cases L decP v base (0 + j) w.txKey with ⟨e, he⟩ | ⟨hn, hb⟩ | ⟨o, bb, e, cb, C, H, R, ho, hbase, hty, _, hcb, hC, hH, _, hopen, hcomm, _⟩
  · rw [he] at hop; cases hop
  · rw [hn] at hop; left; exact ⟨hb, (Except.ok.inj hop).symm⟩
  · rw [ho] at hop
    have hw' : w.opening = some o := (Except.ok.inj hop).symm
    right
    refine ⟨bb, o, cb, C, H, hbase, hty, hw', by rw [hidx]; exact hcb, hC, hH, hopen, hcomm, ?_, ?_, ?_⟩
    · unfold Owned.amount; rw [hw']
    · unfold Owned.blindingFactor; rw [hw']; rfl
    · unfold Owned.commitment; rw [hw', ← hcomm]; rfl

omit [AddCommGroup P] in
/-- **Clear amounts.** Without RingCT data — no base (decoded version-1 transactions and version-2 transactions without inputs,
`C08_clear_amounts_decoded`), or a base of type `Null` — every reported output has no opening, no blinding factor, no commitment,
and its amount is the clear amount of the output at that position: `a > 0 ↦ Some(a)`, `0 ↦ None`. The criterion is the TYPE of
the base, not the kind of input: consensus requires type `Null` of coinbase transactions, but neither the decoder nor the scan
looks at the inputs (a transaction with a `Gen` input and a RingCT type ≠ Null is opened like any other,
`C08_gen_input_ringct_opened`). -/
theorem C08_clear_amounts (decP : Bytes → Option P) (p : Prefix) (v : Nat) (S : P) (a b c d : Nat)
    (base : Option Base) (hb : base = none ∨ ∃ bb, base = some bb ∧ bb.ty = 0) (ws : List Owned)
    (h : checkOutputsPrefix ops decP p v S a b c d base = .ok ws) :
    ∀ w ∈ ws, ∃ hi : w.index < p.outs.length, w.out = p.outs[w.index] ∧
      w.opening = none ∧ w.blindingFactor = none ∧ w.commitment = none ∧
      w.amount = (if p.outs[w.index].amount = 0 then none else some p.outs[w.index].amount) := by
  obtain ⟨Rm, _, hgo⟩ := prefix_ok ops decP p v S a b c d base ws h
  intro w hw
  obtain ⟨j, hj, _, hidx, hout, hop⟩ := go_ok_sound ops decP _ base Rm p.outs 0 _ ws hgo w hw
  rw [openStep_clear ops decP base _ _ _ hb] at hop
  have hw' : w.opening = none := (Except.ok.inj hop).symm
  rw [Nat.zero_add] at hidx
  subst hidx
  refine ⟨hj, hout, hw', ?_, ?_, ?_⟩
  · unfold Owned.blindingFactor; rw [hw']; rfl
  · unfold Owned.commitment; rw [hw']; rfl
  · unfold Owned.amount; rw [hw', hout]

/-! ### Added after the audit: full-width soundness for any checker, the direct entry point, scan-level round trip, honest
transactions scan `Ok`, clear amounts of DECODED transactions -/

/-- **`EcdhInfo::open_commitment`, the direct entry point, is sound**: whatever it returns opens the candidate commitment, the
returned commitment is the candidate, the blinding factor is a reduced scalar and the amount fits 64 bits (for the compact
form `Hash8` has 8 bytes; the model's byte list is unconstrained, hence the length premise). -/
theorem C08_open_commitment_sound (L : Lawful ops) (decP : Bytes → Option P) (e : Ecdh) (v : Nat) (R : P) (i : Nat) (cand : P)
    (o : Opening) (h : openCommitment ops decP e v R i cand = some o) :
    ∃ H, decP Gen.pointH = some H ∧ o.mask • ops.base + o.amount • H = cand ∧ o.commitment = ops.enc cand ∧
      o.mask < ops.l ∧ ((∀ am, e = .bp am → am.length ≤ 8) → o.amount < 2 ^ 64) := by
  obtain ⟨H, hH, h1, h2, h3⟩ := openCommitment_sound L decP e v R i cand o h
  have hb := ecdhDecode_bounds ops L.l_pos e (rvnScalar ops (derive ops v R) i)
  rw [← h3] at hb
  exact ⟨H, hH, h1, h2, hb.1, hb.2⟩

omit [AddCommGroup P] in
/-- **The error of the opening step** for a RingCT base (type ≠ Null) at a matched position `i` with key `K`: no ecdh entry ↦
`MissingEcdhInfo`; else no commitment entry ↦ `MissingCommitment`; else commitment bytes that do not decompress ↦
`InvalidCommitment`; else — GIVEN that the constant `H` decompresses (`hH`; if it did not, Rust would PANIC in
`H.point.decompress().unwrap()`, which the model's `commit = none` stands for; for Ed25519 `C08_no_panic_commit`) — a failed
`open_commitment` ↦ `InvalidCommitment`, and an opening is reported only when `open_commitment` returned it.
This restates the model's `openStep` clause by clause (each clause is an unfolding); what it adds is the reading of the clauses and
the explicit `hH`. That the RUST error mapping is this one is tied by the harness family `c08:pb:*` (truncated lists, explicit
bases), not by this theorem. The case `ops.dec K = none` is outside the clauses: a key that matched was decoded by `check_key`
(`Addressed` contains `ops.dec K = some R`), and in Rust a `PublicKey` that does not decompress can only be made through the public
field (then `PublicKey::point` panics — panic inventory, not this property). -/
theorem C08_open_step_outcomes (decP : Bytes → Option P) (v : Nat) (b : Base) (hty : b.ty ≠ 0) (i : Nat) (K : Bytes) :
    (b.ecdh[i]? = none → openStep ops decP v (some b) i K = .error .missingEcdhInfo) ∧
    (∀ e, b.ecdh[i]? = some e → b.outPk[i]? = none → openStep ops decP v (some b) i K = .error .missingCommitment) ∧
    (∀ e cb, b.ecdh[i]? = some e → b.outPk[i]? = some cb → decP cb = none →
      openStep ops decP v (some b) i K = .error .invalidCommitment) ∧
    (∀ e cb C R H, b.ecdh[i]? = some e → b.outPk[i]? = some cb → decP cb = some C → ops.dec K = some R →
      decP Gen.pointH = some H →
      (∀ y a, commit ops decP y a = some (ops.add (ops.smul y ops.base) (ops.smul a H))) ∧
      (openCommitment ops decP e v R i C = none → openStep ops decP v (some b) i K = .error .invalidCommitment) ∧
      (∀ o, openCommitment ops decP e v R i C = some o → openStep ops decP v (some b) i K = .ok (some o))) := by
  refine ⟨?_, ?_, ?_, ?_⟩
  · intro he; unfold openStep; simp only [hty, if_false, he]
  · intro e he hc; unfold openStep; simp only [hty, if_false, he, hc]
  · intro e cb he hc hd; unfold openStep; simp only [hty, if_false, he, hc, hd]
  · intro e cb C R H he hc hd hR hH
    have := openStep_of_open ops decP v b hty i K e he cb hc C hd R hR
    refine ⟨fun y a => commit_some ops decP H hH y a, ?_, ?_⟩
    · intro hn; rw [this, hn]
    · intro o ho; rw [this, ho]

/-- **Opening soundness at full width, for ANY checker** (`check_outputs_with` with a caller-built `SubKeyChecker`; the
`check_outputs` entry points are the special case `SubKeyChecker::new`, see `C07.apis_agree`). As `C08_opening_sound`, and in
addition: the blinding factor is a reduced scalar (`< l`) and the amount fits 64 bits — a model reporting the full
253-bit amount scalar of the legacy form would not satisfy this. -/
theorem C08_opening_sound_with (L : Lawful ops) (decP : Bytes → Option P) (p : Prefix) (ck : Checker P)
    (base : Option Base) (ws : List Owned) (h : checkOutputsWith ops decP p ck base = .ok ws) :
    ∀ w ∈ ws,
      ((base = none ∨ ∃ bb, base = some bb ∧ bb.ty = 0) ∧ w.opening = none) ∨
      (∃ bb o e cb C H, base = some bb ∧ bb.ty ≠ 0 ∧ w.opening = some o ∧
        bb.ecdh[w.index]? = some e ∧ bb.outPk[w.index]? = some cb ∧ decP cb = some C ∧ decP Gen.pointH = some H ∧
        o.mask • ops.base + o.amount • H = C ∧ o.commitment = ops.enc C ∧
        o.mask < ops.l ∧ ((∀ am, e = .bp am → am.length ≤ 8) → o.amount < 2 ^ 64) ∧
        w.amount = some o.amount ∧ w.blindingFactor = some o.mask ∧ w.commitment = some (ops.enc C)) := by
  obtain ⟨Rm, _, hgo⟩ := with_ok ops decP p ck base ws h
  intro w hw
  have hop := go_ok_opening ops decP ck base Rm p.outs 0 _ ws hgo w hw
  rcases openStep_cases L decP ck.v base w.index w.txKey with ⟨e, he⟩ | ⟨hn, hb⟩ |
    ⟨o, bb, e, cb, C, H, R, ho, hbase, hty, hecdh, hcb, hC, hH, _, hopen, hcomm, hdecode⟩
  · rw [he] at hop; cases hop
  · rw [hn] at hop; left; exact ⟨hb, (Except.ok.inj hop).symm⟩
  · rw [ho] at hop
    have hw' : w.opening = some o := (Except.ok.inj hop).symm
    have hbd := ecdhDecode_bounds ops L.l_pos e (rvnScalar ops (derive ops ck.v R) w.index)
    rw [← hdecode] at hbd
    right
    refine ⟨bb, o, e, cb, C, H, hbase, hty, hw', hecdh, hcb, hC, hH, hopen, hcomm, hbd.1, hbd.2, ?_, ?_, ?_⟩
    · unfold Owned.amount; rw [hw']
    · unfold Owned.blindingFactor; rw [hw']; rfl
    · unfold Owned.commitment; rw [hw', ← hcomm]; rfl

/-- … in particular for `Transaction::check_outputs` and `Transaction::check_outputs_with` (the base is
`rct_signatures.sig`); `TransactionPrefix::check_outputs` is `C08_opening_sound` -/
theorem C08_opening_sound_tx (L : Lawful ops) (decP : Bytes → Option P) (t : Tx) (v : Nat) (S : P) (a b c d : Nat)
    (ck : Checker P) (ws : List Owned)
    (h : checkOutputsTx ops decP t v S a b c d = .ok ws ∨ checkOutputsTxWith ops decP t ck = .ok ws) :
    ∀ w ∈ ws,
      ((t.base = none ∨ ∃ bb, t.base = some bb ∧ bb.ty = 0) ∧ w.opening = none) ∨
      (∃ bb o e cb C H, t.base = some bb ∧ bb.ty ≠ 0 ∧ w.opening = some o ∧
        bb.ecdh[w.index]? = some e ∧ bb.outPk[w.index]? = some cb ∧ decP cb = some C ∧ decP Gen.pointH = some H ∧
        o.mask • ops.base + o.amount • H = C ∧ o.commitment = ops.enc C ∧
        o.mask < ops.l ∧ ((∀ am, e = .bp am → am.length ≤ 8) → o.amount < 2 ^ 64) ∧
        w.amount = some o.amount ∧ w.blindingFactor = some o.mask ∧ w.commitment = some (ops.enc C)) := by
  rcases h with h | h
  · exact C08_opening_sound_with L decP t.pre (Checker.new ops v S a b c d) t.base ws h
  · exact C08_opening_sound_with L decP t.pre ck t.base ws h

/-- **Scan-level round trip: the accessors return the sender's amount.** Under the hypotheses of `C07_sender_reported` (the
output at position `n` was built by the sender for the in-range index `(i,j)`, its key is the main key or the additional
key at `n`), with a RingCT base whose entry `n` is the sender's encoding of `(a, y)` (legacy) or of `a` (compact, `y` the
derived mask) and whose commitment entry `n` is `enc(y·G + a·H)`, and a decompression `decP` that inverts `enc`: an `Ok` scan
reports position `n`, and `amount()`, `blinding_factor()`, `commitment()` of that entry are exactly `a`, `y`, `enc(y·G + a·H)`. -/
theorem C08_scan_reports_sender_amount (L : Lawful ops) (decP : Bytes → Option P) (H : P) (hH : decP Gen.pointH = some H)
    (hdec : ∀ X, decP (ops.enc X) = some X)
    (hl64 : 2 ^ 64 ≤ ops.l) (hl256 : ops.l ≤ 2 ^ 256) (hk8 : ∀ m, 8 ≤ (ops.keccak m).length)
    (p : Prefix) (v : Nat) (S : P) (a' b' c' d' : Nat) (bb : Base) (hty : bb.ty ≠ 0) (ws : List Owned)
    (h : checkOutputsPrefix ops decP p v S a' b' c' d' (some bb) = .ok ws)
    (Rm : Bytes) (hRm : mainKey ops p = some Rm) (n : Nat) (hn : n < p.outs.length)
    (i j r : Nat) (T : P) (hT : 8 • T = 0) (hr : InRange a' b' c' d' (i, j))
    (hout : p.outs[n].target = .key (ops.enc (Spec.Sender.sendKey (specPrims ops) r (Spec.Sender.destAt (specPrims ops) v S i j) n)) ∨
      p.outs[n].target = .tagged (ops.enc (Spec.Sender.sendKey (specPrims ops) r (Spec.Sender.destAt (specPrims ops) v S i j) n))
        (Spec.Sender.sendTag (specPrims ops) r (Spec.Sender.destAt (specPrims ops) v S i j) n))
    (hK : ops.enc (Spec.Sender.txKey (specPrims ops) r (Spec.Sender.destAt (specPrims ops) v S i j) + T) = Rm ∨
      ((addKeys ops p)[n]? = some (ops.enc (Spec.Sender.txKey (specPrims ops) r (Spec.Sender.destAt (specPrims ops) v S i j) + T)) ∧
        ¬ AddressedVia ops v S a' b' c' d' p.outs[n] n Rm))
    (a y : Nat) (ha : a < 2 ^ 64) (hy : y < ops.l)
    (hcb : bb.outPk[n]? = some (ops.enc (Spec.Amounts.commitment (specPrims ops) H y a)))
    (k : Nat) (hk : k = Spec.Sender.derivationScalar (specPrims ops)
        (Spec.Sender.derivation (specPrims ops) r (Spec.Sender.destAt (specPrims ops) v S i j).view) n)
    (hcase :
      (bb.ecdh[n]? = some (.std (Spec.Amounts.legacyEncode (specPrims ops) k y a).1 (Spec.Amounts.legacyEncode (specPrims ops) k y a).2)) ∨
      (bb.ecdh[n]? = some (.bp (Spec.Amounts.compactEncode (specPrims ops) k a)) ∧ y = Spec.Amounts.compactMask (specPrims ops) k)) :
    ∃ w ∈ ws, w.index = n ∧ w.amount = some a ∧ w.blindingFactor = some y ∧
      w.commitment = some (ops.enc (Spec.Amounts.commitment (specPrims ops) H y a)) ∧
      w.txKey = ops.enc (Spec.Sender.txKey (specPrims ops) r (Spec.Sender.destAt (specPrims ops) v S i j) + T) := by
  obtain ⟨w, hw, h1, h2, _⟩ := C07.C07_sender_reported L decP p v S a' b' c' d' (some bb) ws h Rm hRm n hn i j r T hT hr hout hK
  obtain ⟨Rm', _, hgo⟩ := prefix_ok ops decP p v S a' b' c' d' (some bb) ws h
  have hop := go_ok_opening ops decP _ (some bb) Rm' p.outs 0 _ ws hgo w hw
  rw [new_v, h1, h2, C08_sender_roundtrip L decP H hH hl64 hl256 hk8 v S i j r n T hT a y ha hy bb hty _ hcb k hk hcase
    (hdec _)] at hop
  have hw' : w.opening = some ⟨a, y, ops.enc (Spec.Amounts.commitment (specPrims ops) H y a)⟩ := (Except.ok.inj hop).symm
  refine ⟨w, hw, h1, ?_, ?_, ?_, h2⟩
  · unfold Owned.amount; rw [hw']
  · unfold Owned.blindingFactor; rw [hw']; rfl
  · unfold Owned.commitment; rw [hw']; rfl

/-- **Honest transactions scan `Ok`.** If the transaction has a transaction key, a RingCT base (type ≠ Null), and every
position `n` is honest FOR THE KEY THE SCAN SELECTS THERE — the main key when it addresses an in-range index at `n`, the additional
key at `n` only when the main key addresses nothing (`HonestAt`, Proofs/ScanMore.lean: that key is the sender's published key and
the ecdh entry and the commitment at `n` are the sender's encodings under its shared scalar; `HonestAt` says nothing about the
output key) — nothing is assumed about positions that are not addressed — then the scan does not fail. The amounts it then
reports are the senders': `C08_honest_scan_amounts`. -/
theorem C08_honest_scan_ok (L : Lawful ops) (decP : Bytes → Option P) (H : P) (hH : decP Gen.pointH = some H)
    (hdec : ∀ X, decP (ops.enc X) = some X)
    (hl64 : 2 ^ 64 ≤ ops.l) (hl256 : ops.l ≤ 2 ^ 256) (hk8 : ∀ m, 8 ≤ (ops.keccak m).length)
    (p : Prefix) (v : Nat) (S : P) (a b c d : Nat) (bb : Base) (hty : bb.ty ≠ 0)
    (Rm : Bytes) (hRm : mainKey ops p = some Rm)
    (hon : ∀ n (hn : n < p.outs.length) K,
      (K = Rm ∨ ((addKeys ops p)[n]? = some K ∧ ¬ AddressedVia ops v S a b c d p.outs[n] n Rm)) →
      AddressedVia ops v S a b c d p.outs[n] n K → HonestAt ops H v S bb n K) :
    ∃ ws, checkOutputsPrefix ops decP p v S a b c d (some bb) = .ok ws := by
  apply C07.C07_ok_of_matched_openings decP p v S a b c d (some bb) Rm hRm
  intro n hn idx K hm
  obtain ⟨_, hr, hA, hK, _⟩ := matchOutput_some L v S a b c d p.outs[n] n Rm _ _ hm
  simp only at hr hA hK
  obtain ⟨i, j, r, T, am, y, hT, ham, hy, hKe, hcb, hcase⟩ :=
    hon n hn K hK ⟨idx, hr, hA⟩
  rw [hKe]
  exact ⟨_, C08_sender_roundtrip L decP H hH hl64 hl256 hk8 v S i j r n T hT am y ham hy bb hty _ hcb _ rfl hcase (hdec _)⟩

/-- **… and reports the senders' amounts at every reported position.** Under the hypotheses of `C08_honest_scan_ok`, in the `Ok`
result every reported output `w` comes WITH the honest witness of its position and matched key — the content of `HonestAt` with
its amount and mask exposed: a subaddress index `(i,j)`, a sender secret `r`, a small-order shift `T`, an amount `am < 2^64` and a
mask `y < l` such that `w.tx_pubkey` is the sender's published key `enc(txKey r dest(i,j) + T)`, the ecdh entry at `w.index` is the
SENDER's encoding of `(am, y)` under the shared scalar `k = Hs(enc(8·r·V) ‖ varint(w.index))` (legacy: `legacyEncode k y am`;
compact: `compactEncode k am` with `y` the derived mask) and the commitment entry is `enc(y·G + am·H)` — and `amount()`,
`blinding_factor()`, `commitment()` return exactly that `am`, that `y` and `enc(y·G + am·H)`. The link `(am, y)` ↔ the sender's
ecdh encoding is what distinguishes this from opening soundness (`C08_opening_sound_with`, which needs no honesty and only says
that the reported pair opens the on-chain commitment). (Which positions are reported: `C07_reported_iff`.) -/
theorem C08_honest_scan_amounts (L : Lawful ops) (decP : Bytes → Option P) (H : P) (hH : decP Gen.pointH = some H)
    (hdec : ∀ X, decP (ops.enc X) = some X)
    (hl64 : 2 ^ 64 ≤ ops.l) (hl256 : ops.l ≤ 2 ^ 256) (hk8 : ∀ m, 8 ≤ (ops.keccak m).length)
    (p : Prefix) (v : Nat) (S : P) (a b c d : Nat) (bb : Base) (hty : bb.ty ≠ 0)
    (Rm : Bytes) (hRm : mainKey ops p = some Rm)
    (hon : ∀ n (hn : n < p.outs.length) K,
      (K = Rm ∨ ((addKeys ops p)[n]? = some K ∧ ¬ AddressedVia ops v S a b c d p.outs[n] n Rm)) →
      AddressedVia ops v S a b c d p.outs[n] n K → HonestAt ops H v S bb n K)
    (ws : List Owned) (h : checkOutputsPrefix ops decP p v S a b c d (some bb) = .ok ws) :
    ∀ w ∈ ws, ∃ (i j r : Nat) (T : P) (am y : Nat), 8 • T = 0 ∧ am < 2 ^ 64 ∧ y < ops.l ∧
      w.txKey = ops.enc (Spec.Sender.txKey (specPrims ops) r (Spec.Sender.destAt (specPrims ops) v S i j) + T) ∧
      bb.outPk[w.index]? = some (ops.enc (Spec.Amounts.commitment (specPrims ops) H y am)) ∧
      (bb.ecdh[w.index]? = some (.std
          (Spec.Amounts.legacyEncode (specPrims ops) (Spec.Sender.derivationScalar (specPrims ops)
            (Spec.Sender.derivation (specPrims ops) r (Spec.Sender.destAt (specPrims ops) v S i j).view) w.index) y am).1
          (Spec.Amounts.legacyEncode (specPrims ops) (Spec.Sender.derivationScalar (specPrims ops)
            (Spec.Sender.derivation (specPrims ops) r (Spec.Sender.destAt (specPrims ops) v S i j).view) w.index) y am).2) ∨
        (bb.ecdh[w.index]? = some (.bp (Spec.Amounts.compactEncode (specPrims ops) (Spec.Sender.derivationScalar (specPrims ops)
            (Spec.Sender.derivation (specPrims ops) r (Spec.Sender.destAt (specPrims ops) v S i j).view) w.index) am)) ∧
          y = Spec.Amounts.compactMask (specPrims ops) (Spec.Sender.derivationScalar (specPrims ops)
            (Spec.Sender.derivation (specPrims ops) r (Spec.Sender.destAt (specPrims ops) v S i j).view) w.index))) ∧
      w.amount = some am ∧ w.blindingFactor = some y ∧
      w.commitment = some (ops.enc (Spec.Amounts.commitment (specPrims ops) H y am)) := by
  intro w hw
  obtain ⟨Rm', hRm', _, hall⟩ := C07.C07_sound L decP p v S a b c d (some bb) ws h
  rw [hRm] at hRm'; cases hRm'
  obtain ⟨hi, hout, hr, hK, hA, _⟩ := hall w hw
  rw [hout] at hA hK
  obtain ⟨i, j, r, T, am, y, hT, ham, hy, hKe, hcb, hcase⟩ := hon w.index hi w.txKey hK ⟨w.sub, hr, hA⟩
  obtain ⟨Rm'', _, hgo⟩ := prefix_ok ops decP p v S a b c d (some bb) ws h
  have hop := go_ok_opening ops decP _ (some bb) Rm'' p.outs 0 _ ws hgo w hw
  rw [new_v, hKe, C08_sender_roundtrip L decP H hH hl64 hl256 hk8 v S i j r w.index T hT am y ham hy bb hty _ hcb _ rfl hcase
    (hdec _)] at hop
  have hw' : w.opening = some ⟨am, y, ops.enc (Spec.Amounts.commitment (specPrims ops) H y am)⟩ := (Except.ok.inj hop).symm
  refine ⟨i, j, r, T, am, y, hT, ham, hy, hKe, hcb, hcase, ?_, ?_, ?_⟩
  · unfold Owned.amount; rw [hw']
  · unfold Owned.blindingFactor; rw [hw']; rfl
  · unfold Owned.commitment; rw [hw']; rfl

/-- **From the sender's bytes to the reported amount, with no `.ok` premise.** The sender writes the extra field
`TxPublicKey(K) :: rest` with `K = txKey r dest + T` for the wallet's address at the in-range index `(i,j)`, the output at position
`n` as in `C07_sender_recognised`, and in the RingCT base (type ≠ Null) at position `n` its encoding of `(a, y)` and the commitment
`enc(y·G + a·H)`; every other position that the scan matches is honest too (`hon`, as in `C08_honest_scan_ok`; it holds vacuously
for positions the wallet does not own). Then the scan IS `Ok` and `amount()`, `blinding_factor()`, `commitment()` of the entry for
position `n` are `a`, `y`, `enc(y·G + a·H)`. All hypotheses are instantiated together in `C08_witness_ed25519`. -/
theorem C08_sender_tx_amount (L : Lawful ops) (decP : Bytes → Option P) (H : P) (hH : decP Gen.pointH = some H)
    (hdec : ∀ X, decP (ops.enc X) = some X)
    (hl64 : 2 ^ 64 ≤ ops.l) (hl256 : ops.l ≤ 2 ^ 256) (hk8 : ∀ m, 8 ≤ (ops.keccak m).length)
    (p : Prefix) (v : Nat) (S : P) (a' b' c' d' : Nat) (bb : Base) (hty : bb.ty ≠ 0)
    (n : Nat) (hn : n < p.outs.length) (i j r : Nat) (T : P) (hT : 8 • T = 0) (hr : InRange a' b' c' d' (i, j))
    (rest : List Extra.SubField)
    (hw : Extra.WFSeq (validKey ops) (.txPub (ops.enc (Spec.Sender.txKey (specPrims ops) r (Spec.Sender.destAt (specPrims ops) v S i j) + T)) :: rest))
    (hp : p.extra = ((Extra.SubField.txPub (ops.enc (Spec.Sender.txKey (specPrims ops) r (Spec.Sender.destAt (specPrims ops) v S i j) + T)) :: rest).map Extra.encSub).flatten)
    (hout : p.outs[n].target = .key (ops.enc (Spec.Sender.sendKey (specPrims ops) r (Spec.Sender.destAt (specPrims ops) v S i j) n)) ∨
      p.outs[n].target = .tagged (ops.enc (Spec.Sender.sendKey (specPrims ops) r (Spec.Sender.destAt (specPrims ops) v S i j) n))
        (Spec.Sender.sendTag (specPrims ops) r (Spec.Sender.destAt (specPrims ops) v S i j) n))
    (a y : Nat) (ha : a < 2 ^ 64) (hy : y < ops.l)
    (hcb : bb.outPk[n]? = some (ops.enc (Spec.Amounts.commitment (specPrims ops) H y a)))
    (k : Nat) (hk : k = Spec.Sender.derivationScalar (specPrims ops)
        (Spec.Sender.derivation (specPrims ops) r (Spec.Sender.destAt (specPrims ops) v S i j).view) n)
    (hcase :
      (bb.ecdh[n]? = some (.std (Spec.Amounts.legacyEncode (specPrims ops) k y a).1 (Spec.Amounts.legacyEncode (specPrims ops) k y a).2)) ∨
      (bb.ecdh[n]? = some (.bp (Spec.Amounts.compactEncode (specPrims ops) k a)) ∧ y = Spec.Amounts.compactMask (specPrims ops) k))
    (hon : ∀ m (hm : m < p.outs.length) K,
      (K = ops.enc (Spec.Sender.txKey (specPrims ops) r (Spec.Sender.destAt (specPrims ops) v S i j) + T) ∨
        ((addKeys ops p)[m]? = some K ∧ ¬ AddressedVia ops v S a' b' c' d' p.outs[m] m
          (ops.enc (Spec.Sender.txKey (specPrims ops) r (Spec.Sender.destAt (specPrims ops) v S i j) + T)))) →
      AddressedVia ops v S a' b' c' d' p.outs[m] m K → HonestAt ops H v S bb m K) :
    ∃ ws, checkOutputsPrefix ops decP p v S a' b' c' d' (some bb) = .ok ws ∧
      ∃ w ∈ ws, w.index = n ∧ w.amount = some a ∧ w.blindingFactor = some y ∧
        w.commitment = some (ops.enc (Spec.Amounts.commitment (specPrims ops) H y a)) := by
  have hRm := (C07.C07_keys_of_sender_extra p _ hw hp).1
  obtain ⟨ws, hws⟩ := C08_honest_scan_ok L decP H hH hdec hl64 hl256 hk8 p v S a' b' c' d' bb hty _ hRm hon
  obtain ⟨w, hw', h1, h2, h3, h4, _⟩ := C08_scan_reports_sender_amount L decP H hH hdec hl64 hl256 hk8 p v S a' b' c' d' bb hty ws hws
    _ hRm n hn i j r T hT hr hout (Or.inl rfl) a y ha hy hcb k hk hcase
  exact ⟨ws, hws, w, hw', h1, h2, h3, h4⟩

omit [AddCommGroup P] in
/-- **Clear amounts of a DECODED transaction.** A transaction that came out of the decoder (`Monero.tx`, the model of
`Transaction::consensus_decode`, C01/C02) with version 1, or with no inputs, has no `RctSigBase` (`tx_base_none`); the third
case is a HYPOTHESIS: the decoded base has type `Null` (what consensus requires of a version-2 coinbase transaction — the decoder
does not enforce it and never looks at the inputs). In these three cases `Transaction::check_outputs` reports the clear amounts
(`a > 0 ↦ Some(a)`, `0 ↦ None`), no blinding factor and no commitment. "Coinbase ⇒ clear amount" is NOT a theorem and is false for
the code: see `C08_gen_input_ringct_opened`. (This is a statement about `Transaction`: the
lower-level `TransactionPrefix::check_outputs(v1 prefix, Some(&ringct_base))` attempts an opening whatever the version — in
the code and in the model; the harness runs that combination, family `pb:v1-prefix-ringct-base`.) -/
theorem C08_clear_amounts_decoded (decP : Bytes → Option P) (bytes rest : Bytes) (t : Tx) (hdec : Monero.tx bytes = some (t, rest))
    (hv : t.pre.version = 1 ∨ t.pre.ins = [] ∨ ∃ bb, t.base = some bb ∧ bb.ty = 0)
    (v : Nat) (S : P) (a b c d : Nat) (ws : List Owned) (h : checkOutputsTx ops decP t v S a b c d = .ok ws) :
    ∀ w ∈ ws, ∃ hi : w.index < t.pre.outs.length, w.out = t.pre.outs[w.index] ∧
      w.opening = none ∧ w.blindingFactor = none ∧ w.commitment = none ∧
      w.amount = (if t.pre.outs[w.index].amount = 0 then none else some t.pre.outs[w.index].amount) := by
  have hb : t.base = none ∨ ∃ bb, t.base = some bb ∧ bb.ty = 0 := by
    rcases hv with h1 | h2 | h3
    · exact Or.inl (tx_base_none bytes t rest hdec (Or.inl h1))
    · exact Or.inl (tx_base_none bytes t rest hdec (Or.inr h2))
    · exact Or.inr h3
  exact C08_clear_amounts decP t.pre v S a b c d t.base hb ws h

/-- **A RingCT type ≠ Null is opened whatever the inputs are** — in particular a `Gen` input does not make the amounts clear (the
deviation from the informal property text "coinbase outputs report the clear amount", recorded as a theorem). The statement has NO
hypothesis about `t.pre.ins`: for EVERY input list — `[TxIn::Gen]` included — a transaction whose base has a RingCT type ≠ Null is
scanned like any RingCT transaction: every reported output carries an OPENING (or the scan fails), never the clear amount. (An
earlier version carried an unused hypothesis `t.pre.ins = [.gen h]`; it only named the situation and has been removed.) That the
situation occurs is `C08_gen_input_witness` below (an `Ok` scan of a transaction with `ins = [.gen 1]`, clear amount 0 and a type-1
base that reports the opened amount); that the decoder accepts such bytes is not proved in this file (C02's sample
`C02_wf_inhabited_rct` is a type-4 transaction with a coinbase input first); the harness scans such transactions (`to_monero` gives
every RingCT scenario one `Gen` input). -/
theorem C08_gen_input_ringct_opened (L : Lawful ops) (decP : Bytes → Option P) (t : Tx)
    (bb : Base) (hb : t.base = some bb) (hty : bb.ty ≠ 0) (v : Nat) (S : P) (a b c d : Nat) (ws : List Owned)
    (h : checkOutputsTx ops decP t v S a b c d = .ok ws) :
    ∀ w ∈ ws, ∃ o, w.opening = some o ∧ w.amount = some o.amount := by
  intro w hw
  rcases C08_opening_sound_tx L decP t v S a b c d (Checker.new ops v S a b c d) ws (Or.inl h) w hw with
    ⟨hn | ⟨b0, hb0, h0⟩, _⟩ | ⟨_, o, _, _, _, _, _, _, ho, _, _, _, _, _, _, _, _, ham, _⟩
  · rw [hb] at hn; cases hn
  · rw [hb] at hb0; cases hb0; exact absurd h0 hty
  · exact ⟨o, ho, ham⟩

omit [AddCommGroup P] in
/-- in a DECODED transaction every compact ecdh entry has exactly 8 bytes (`Hash8`) -/
private theorem decoded_bp_len (bytes rest : Bytes) (t : Tx) (hdec : Monero.tx bytes = some (t, rest)) (bb : Base)
    (hb : t.base = some bb) (hty : bb.ty ≠ 0) : ∀ e ∈ bb.ecdh, ∀ am, e = .bp am → am.length ≤ 8 := by
  obtain ⟨_, h1, h2⟩ := decoded_wf_tx bytes t rest hdec
  have hv : t.pre.version ≠ 1 := by
    intro hv1; have := (h1 hv1).2.1; rw [hb] at this; cases this
  have hin : t.pre.ins ≠ [] := by
    intro hi; have := ((h2 hv).2.1 hi).1; rw [hb] at this; cases this
  obtain ⟨b0, hb0, hwf, _⟩ := (h2 hv).2.2 hin
  rw [hb] at hb0; cases hb0
  obtain ⟨_, _, _, hall, _⟩ := hwf.2.2 hty
  intro e he am hea
  have := hall e he
  rw [hea] at this
  exact Nat.le_of_eq this.2

/-- **Width of the openings of a DECODED transaction — unconditional.** The bound `amount < 2^64` of `C08_opening_sound_with` /
`C08_opening_sound_tx` / `C08_open_commitment_sound` is CONDITIONAL on the compact ecdh field having at most 8 bytes (the model's
byte list is unconstrained; Rust's `Hash8` is `[u8; 8]`). For a transaction that came out of the decoder the condition is a fact
(`decoded_wf_tx`: the decoder reads exactly 8 bytes), so every opening reported by `Transaction::check_outputs` /
`check_outputs_with` has an amount below `2^64` and a reduced blinding factor. -/
theorem C08_opening_sound_decoded (L : Lawful ops) (decP : Bytes → Option P) (bytes rest : Bytes) (t : Tx)
    (hdec : Monero.tx bytes = some (t, rest)) (v : Nat) (S : P) (a b c d : Nat) (ck : Checker P) (ws : List Owned)
    (h : checkOutputsTx ops decP t v S a b c d = .ok ws ∨ checkOutputsTxWith ops decP t ck = .ok ws) :
    ∀ w ∈ ws, ∀ o, w.opening = some o → o.amount < 2 ^ 64 ∧ o.mask < ops.l := by
  intro w hw o ho
  rcases C08_opening_sound_tx L decP t v S a b c d ck ws h w hw with
    ⟨_, hn⟩ | ⟨bb, o', e, _, _, _, hb, hty, ho', he, _, _, _, _, _, hm, ham, _⟩
  · rw [hn] at ho; cases ho
  · rw [ho] at ho'; cases ho'
    exact ⟨ham (decoded_bp_len bytes rest t hdec bb hb hty e (List.mem_of_getElem? he)), hm⟩

/-- the SIDE CONDITIONS of the theorems above (not their transaction-level hypotheses) are satisfiable together: a lawful instance
with the order of Ed25519 (`2^64 ≤ l ≤ 2^256`), a hash returning 32 bytes (a CONSTANT one: all shared scalars are equal in this
instance), and a decompression accepting `H`. For Ed25519 with the real Keccak they are facts (`C08_side_conditions_ed25519`), and the
transaction-level hypotheses are instantiated together in `C08_witness_ed25519`. -/
example : ∃ (Q : Type) (_ : AddCommGroup Q) (o : CryptoOps Q) (decP : Bytes → Option Q) (H : Q),
    Lawful o ∧ 2 ^ 64 ≤ o.l ∧ o.l ≤ 2 ^ 256 ∧ (∀ m, 8 ≤ (o.keccak m).length) ∧ decP Gen.pointH = some H :=
  ⟨_, _, { zmodOps with keccak := fun _ => List.replicate 32 0 }, fun _ => some 1, 1,
    ⟨zmodOps_lawful.add_eq, zmodOps_lawful.sub_eq, zmodOps_lawful.smul_eq, zmodOps_lawful.l_gt, zmodOps_lawful.base_order,
      zmodOps_lawful.enc_inj, zmodOps_lawful.dec_enc⟩,
    by show 2 ^ 64 ≤ Ed.l; unfold Ed.l; omega, by show Ed.l ≤ 2 ^ 256; unfold Ed.l; omega,
    fun _ => by simp, rfl⟩

/-- … and so are the side conditions of `C08_scan_reports_sender_amount` / `C08_honest_scan_ok`: in addition a decompression that
inverts the encoding (the accepted-encodings decoder of the instance itself) -/
example : ∃ (Q : Type) (_ : AddCommGroup Q) (o : CryptoOps Q) (decP : Bytes → Option Q) (H : Q),
    Lawful o ∧ 2 ^ 64 ≤ o.l ∧ o.l ≤ 2 ^ 256 ∧ (∀ m, 8 ≤ (o.keccak m).length) ∧ decP Gen.pointH = some H ∧
    ∀ X, decP (o.enc X) = some X :=
  ⟨_, _, { zmodOps with keccak := fun _ => List.replicate 32 0 }, zmodOps.dec, _,
    ⟨zmodOps_lawful.add_eq, zmodOps_lawful.sub_eq, zmodOps_lawful.smul_eq, zmodOps_lawful.l_gt, zmodOps_lawful.base_order,
      zmodOps_lawful.enc_inj, zmodOps_lawful.dec_enc⟩,
    by show 2 ^ 64 ≤ Ed.l; unfold Ed.l; omega, by show Ed.l ≤ 2 ^ 256; unfold Ed.l; omega,
    fun _ => by simp, rfl, zmodOps_lawful.dec_enc⟩

/-! ### Ed25519 itself: `Lawful` is a theorem, not an assumption

`Proofs/EdwardsGroup.lean` proves that the affine twisted Edwards curve −x² + y² = 1 + d·x²·y² over GF(2^255 − 19) with the
complete addition law is an abelian group (d is a non-square, −1 a square; associativity by explicit polynomial
certificates); `Proofs/EdwardsRef*.lean` that the executable reference arithmetic `Ref/Ed25519.lean` (extended coordinates,
double-and-add, RFC 8032 compression) computes in that group; `Proofs/EdwardsLawful.lean` that the resulting primitives
record `edOps` (points = curve points, `l·G = 0`, injective encoding accepted by `dec`) is `Lawful`, and that the instance
the compiled driver runs (`Drv.refOps`) refines it operation by operation. The theorems below are the theorems of this
file with that instance plugged in: no hypothesis about the group is left. (That curve25519-dalek computes the same
functions as `Ref/Ed25519.lean` remains a differential tie — dalek is a dependency.) -/
section Ed25519
open Monero.Edw

/-- the constant `H` of the CURRENT SOURCE (regenerated from src/util/key.rs on every run) is Monero's second generator -/
theorem C08_H_is_monero : Gen.pointH = Spec.Amounts.moneroH := by decide

set_option maxRecDepth 100000 in
private theorem H_decodes_ref : (Ed.decodePt Gen.pointH).isSome = true := by decide +kernel

/-- … and it is the canonical encoding of a curve point: the hypothesis `decP Gen.pointH = some H` of the theorems above
is a fact for Ed25519 (so `H.point.decompress().unwrap()` in `open_commitment` cannot panic) -/
theorem C08_H_decodes : ∃ H : EdPoint, decPoint Gen.pointH = some H ∧ edOps.dec = decPoint := by
  cases h : Ed.decodePt Gen.pointH with
  | none => have := H_decodes_ref; rw [h] at this; cases this
  | some P => exact ⟨_, decPoint_some h, rfl⟩

theorem C08_ed25519_lawful : Lawful edOps ∧ RefinesEd Drv.refOps := ⟨edOps_lawful, refOps_refines_edOps⟩
theorem C08_sender_roundtrip_ed25519 : type_of% (@C08_sender_roundtrip EdPoint _ edOps edOps_lawful) := C08_sender_roundtrip edOps_lawful
theorem C08_opening_sound_ed25519 : type_of% (@C08_opening_sound EdPoint _ edOps edOps_lawful) := C08_opening_sound edOps_lawful
theorem C08_opening_sound_with_ed25519 : type_of% (@C08_opening_sound_with EdPoint _ edOps edOps_lawful) := C08_opening_sound_with edOps_lawful
theorem C08_open_commitment_sound_ed25519 : type_of% (@C08_open_commitment_sound EdPoint _ edOps edOps_lawful) := C08_open_commitment_sound edOps_lawful
theorem C08_scan_reports_sender_amount_ed25519 : type_of% (@C08_scan_reports_sender_amount EdPoint _ edOps edOps_lawful) := C08_scan_reports_sender_amount edOps_lawful
theorem C08_honest_scan_ok_ed25519 : type_of% (@C08_honest_scan_ok EdPoint _ edOps edOps_lawful) := C08_honest_scan_ok edOps_lawful
/-! ### Ed25519 with dalek's permissive decompression: no hypothesis about `decP` or `H` left

`decPermissive` (Proofs/EdwardsPermissive.lean) is a MODEL of `CompressedEdwardsY::decompress` — the function `Keys.decompressDalek`
of C13, tied to dalek differentially (C13 operations; here the non-canonical and small-order commitments of `run_c08`) — as a decoder
into the group. PROVED about it: it returns curve points, extends the strict decoder of `PublicKey::from_slice`, inverts the
encoding, and decodes the regenerated constant `H`. The decoder the compiled driver runs (`Drv.C07.decP`) is the same
`Keys.decompressDalek` without the validity proof, so "the driver refines it" is true by construction and carries no evidence
that either is dalek's function. `edH` is the point `Gen.pointH` denotes; the theorems below are instantiated with it, so neither
`decP` nor `H` is a parameter any more. -/

/-- the permissive decoder inverts `enc` and extends `PublicKey::from_slice`'s decoder (real facts); the last two clauses — the
driver's decoder agrees with it — hold by construction (both are `Keys.decompressDalek`) -/
theorem C08_permissive_decoder :
    (∀ X : EdPoint, decPermissive (edOps.enc X) = some X) ∧
    (∀ b X, edOps.dec b = some X → decPermissive b = some X) ∧
    (∀ b Q, Drv.C07.decP b = some Q → ∃ h : Valid Q, decPermissive b = some (toPoint Q h)) ∧
    (∀ b, Drv.C07.decP b = none → decPermissive b = none) :=
  ⟨decPermissive_enc, fun b X h => decPermissive_of_strict b X h, fun b => (decP_refines b).1, fun b => (decP_refines b).2⟩

/-- the constant `H` of the current source decompresses under the permissive decoder too (to the same point): the `unwrap` in
`open_commitment` does not panic -/
theorem C08_H_decodes_permissive : ∃ H : EdPoint, decPermissive Gen.pointH = some H ∧ edOps.dec Gen.pointH = some H := by
  obtain ⟨H, hH, _⟩ := C08_H_decodes
  exact ⟨H, decPermissive_of_strict _ H hH, by rw [edOps_dec]; exact hH⟩

/-- the point that the constant `H` of the current source denotes -/
noncomputable def edH : EdPoint :=
  (decPermissive Gen.pointH).get (by obtain ⟨H, hH, _⟩ := C08_H_decodes_permissive; rw [hH]; rfl)

/-- `edH` is what both decoders return for `Gen.pointH` -/
theorem C08_edH : decPermissive Gen.pointH = some edH ∧ edOps.dec Gen.pointH = some edH := by
  obtain ⟨H, hH, hH'⟩ := C08_H_decodes_permissive
  have e : edH = H := by unfold edH; simp only [hH, Option.get_some]
  rw [e]; exact ⟨hH, hH'⟩

private theorem l64 : 2 ^ 64 ≤ edOps.l := by rw [edOps_l]; unfold Ed.l; omega
private theorem l256 : edOps.l ≤ 2 ^ 256 := by rw [edOps_l]; unfold Ed.l; omega
private theorem k8 : ∀ m, 8 ≤ (edOps.keccak m).length := by
  intro m; rw [edOps_keccak, keccak256_length]; omega

/-- **The side conditions are facts for Ed25519 with the real Keccak-256**: lawful group, `2^64 ≤ l ≤ 2^256`, 32-byte hash, the
constant `H` decompresses, the permissive decompression inverts the encoding -/
theorem C08_side_conditions_ed25519 :
    Lawful edOps ∧ 2 ^ 64 ≤ edOps.l ∧ edOps.l ≤ 2 ^ 256 ∧ (∀ m, 8 ≤ (edOps.keccak m).length) ∧
    decPermissive Gen.pointH = some edH ∧ (∀ X, decPermissive (edOps.enc X) = some X) ∧
    edOps.keccak = Keccak.keccak256 :=
  ⟨edOps_lawful, l64, l256, k8, C08_edH.1, decPermissive_enc, rfl⟩

/-- **`open_commitment` cannot panic on Ed25519**: the model's `commit` (whose `none` stands for the panic of
`H.point.decompress().unwrap()`) is total for dalek's decompression and the constant of the current source -/
theorem C08_no_panic_commit (y a : Nat) : commit edOps decPermissive y a ≠ none := by
  rw [commit_some edOps decPermissive edH C08_edH.1]; exact fun h => by cases h

/-- `C08_sender_roundtrip` for Ed25519, dalek's decompression and the point `edH` that `Gen.pointH` denotes, with the on-chain
commitment entry being the sender's `enc(y·G + a·H)`: the decompression hypothesis `hC` of the general theorem is DISCHARGED here
(`decPermissive_enc`), so no hypothesis about `decP`, `H`, `l` or Keccak is left — only the sender's data. (For commitment bytes
`cb` that are some other spelling of the same point, use the general theorem with `hC : decPermissive cb = some …`.) -/
theorem C08_sender_roundtrip_ed25519_permissive
    (v : Nat) (S : EdPoint) (i j r n : Nat) (T : EdPoint) (hT : 8 • T = 0) (a y : Nat) (ha : a < 2 ^ 64) (hy : y < edOps.l)
    (b : Base) (hty : b.ty ≠ 0)
    (hcb : b.outPk[n]? = some (edOps.enc (Spec.Amounts.commitment (specPrims edOps) edH y a)))
    (k : Nat) (hk : k = Spec.Sender.derivationScalar (specPrims edOps)
        (Spec.Sender.derivation (specPrims edOps) r (Spec.Sender.destAt (specPrims edOps) v S i j).view) n)
    (hcase :
      (b.ecdh[n]? = some (.std (Spec.Amounts.legacyEncode (specPrims edOps) k y a).1 (Spec.Amounts.legacyEncode (specPrims edOps) k y a).2)) ∨
      (b.ecdh[n]? = some (.bp (Spec.Amounts.compactEncode (specPrims edOps) k a)) ∧ y = Spec.Amounts.compactMask (specPrims edOps) k)) :
    openStep edOps decPermissive v (some b) n
        (edOps.enc (Spec.Sender.txKey (specPrims edOps) r (Spec.Sender.destAt (specPrims edOps) v S i j) + T))
      = .ok (some ⟨a, y, edOps.enc (Spec.Amounts.commitment (specPrims edOps) edH y a)⟩) :=
  C08_sender_roundtrip edOps_lawful decPermissive edH C08_edH.1 l64 l256 k8 v S i j r n T hT a y ha hy b hty _ hcb k hk hcase
    (decPermissive_enc _)

/-- `C08_scan_reports_sender_amount` for Ed25519 and dalek's decompression: the only hypotheses left are about the transaction -/
theorem C08_scan_reports_sender_amount_ed25519_permissive :
    type_of% (C08_scan_reports_sender_amount edOps_lawful decPermissive edH C08_edH.1 decPermissive_enc l64 l256 k8) :=
  C08_scan_reports_sender_amount edOps_lawful decPermissive edH C08_edH.1 decPermissive_enc l64 l256 k8

/-- `C08_honest_scan_ok` for Ed25519 and dalek's decompression -/
theorem C08_honest_scan_ok_ed25519_permissive :
    type_of% (C08_honest_scan_ok edOps_lawful decPermissive edH C08_edH.1 decPermissive_enc l64 l256 k8) :=
  C08_honest_scan_ok edOps_lawful decPermissive edH C08_edH.1 decPermissive_enc l64 l256 k8

/-- `C08_honest_scan_amounts` for Ed25519 and dalek's decompression -/
theorem C08_honest_scan_amounts_ed25519_permissive :
    type_of% (C08_honest_scan_amounts edOps_lawful decPermissive edH C08_edH.1 decPermissive_enc l64 l256 k8) :=
  C08_honest_scan_amounts edOps_lawful decPermissive edH C08_edH.1 decPermissive_enc l64 l256 k8

/-- `C08_sender_tx_amount` for Ed25519 and dalek's decompression -/
theorem C08_sender_tx_amount_ed25519_permissive :
    type_of% (C08_sender_tx_amount edOps_lawful decPermissive edH C08_edH.1 decPermissive_enc l64 l256 k8) :=
  C08_sender_tx_amount edOps_lawful decPermissive edH C08_edH.1 decPermissive_enc l64 l256 k8

/-- `C08_opening_sound_with` for Ed25519 and dalek's decompression -/
theorem C08_opening_sound_with_ed25519_permissive :
    type_of% (C08_opening_sound_with edOps_lawful decPermissive) :=
  C08_opening_sound_with edOps_lawful decPermissive

/-- `C08_opening_sound_decoded` for Ed25519 and dalek's decompression -/
theorem C08_opening_sound_decoded_ed25519_permissive :
    type_of% (C08_opening_sound_decoded edOps_lawful decPermissive) :=
  C08_opening_sound_decoded edOps_lawful decPermissive

/-- the witness transaction: extra = the key `r·G` alone, one `Gen` input, one output = the sender's one-time key for the primary address -/
noncomputable def witnessPrefix (v r : Nat) (S : EdPoint) : Prefix :=
  ⟨2, 0, [.gen 1], [⟨0, .key (edOps.enc (Spec.Sender.sendKey (specPrims edOps) r (Spec.Sender.destAt (specPrims edOps) v S 0 0) 0))⟩],
    ([Extra.SubField.txPub (edOps.enc (Spec.Sender.txKey (specPrims edOps) r (Spec.Sender.destAt (specPrims edOps) v S 0 0) + 0))].map Extra.encSub).flatten⟩
/-- … and its base: type 1 (legacy), the sender's encoding of `(a, y)` and the commitment `enc(y·G + a·H)` -/
noncomputable def witnessBase (v r a y : Nat) (S : EdPoint) : Base :=
  ⟨1, 0, [],
    [.std (Spec.Amounts.legacyEncode (specPrims edOps) (Spec.Sender.derivationScalar (specPrims edOps)
        (Spec.Sender.derivation (specPrims edOps) r (Spec.Sender.destAt (specPrims edOps) v S 0 0).view) 0) y a).1
      (Spec.Amounts.legacyEncode (specPrims edOps) (Spec.Sender.derivationScalar (specPrims edOps)
        (Spec.Sender.derivation (specPrims edOps) r (Spec.Sender.destAt (specPrims edOps) v S 0 0).view) 0) y a).2],
    [edOps.enc (Spec.Amounts.commitment (specPrims edOps) edH y a)]⟩

/-- **A joint witness on Ed25519 with the real Keccak: an `Ok` RingCT scan that reports the sender's amount.** For every wallet
`(v, S)`, sender secret `r`, amount `a < 2^64` and mask `y < l`: the transaction `witnessPrefix` / `witnessBase` (extra = the key `r·G`
alone, ONE `Gen` INPUT, single output = the sender's one-time key for the primary address, base of type 1 with the sender's legacy encoding of
`(a, y)` and the commitment `enc(y·G + a·H)`) scans with ranges `0..1 × 0..1` to `Ok`, and the entry for position 0 reports amount
`a`, blinding factor `y` and that commitment. All transaction-level hypotheses of `C08_sender_tx_amount` (hence of
`C08_scan_reports_sender_amount` and `C08_honest_scan_ok`) hold together; in particular for `a = 0, y = 0` (the commitment is the
identity) and for `y = l − 1`, `a = 2^64 − 1`. This is the LEGACY / main-key / primary-address / untagged / `T = 0` branch only: the
compact disjunct of `hcase`, the additional-key disjunct of `hK`, subaddresses and tagged targets have no Lean witness (they are
exercised by the harness families). -/
theorem C08_witness_ed25519 (v r a y : Nat) (S : EdPoint) (ha : a < 2 ^ 64) (hy : y < edOps.l) :
    ∃ ws, checkOutputsPrefix edOps decPermissive (witnessPrefix v r S) v S 0 1 0 1 (some (witnessBase v r a y S)) = .ok ws ∧
      ∃ w ∈ ws, w.index = 0 ∧ w.amount = some a ∧ w.blindingFactor = some y ∧
        w.commitment = some (edOps.enc (Spec.Amounts.commitment (specPrims edOps) edH y a)) := by
  have hr : InRange 0 1 0 1 ((0 : Nat), (0 : Nat)) := ⟨Nat.le_refl _, Nat.one_pos, Nat.le_refl _, Nat.one_pos⟩
  have hw : Extra.WFSeq (validKey edOps)
      [.txPub (edOps.enc (Spec.Sender.txKey (specPrims edOps) r (Spec.Sender.destAt (specPrims edOps) v S 0 0) + 0))] := by
    show (edOps.enc _).length = 32 ∧ validKey edOps (edOps.enc _) = true
    exact ⟨C07.edOps_enc_length _, by unfold validKey; rw [edOps_lawful.dec_enc]; rfl⟩
  have hp : (witnessPrefix v r S).extra = ([Extra.SubField.txPub (edOps.enc (Spec.Sender.txKey (specPrims edOps) r
      (Spec.Sender.destAt (specPrims edOps) v S 0 0) + 0))].map Extra.encSub).flatten := rfl
  have hn : 0 < (witnessPrefix v r S).outs.length := Nat.one_pos
  refine C08_sender_tx_amount edOps_lawful decPermissive edH C08_edH.1 decPermissive_enc l64 l256 k8 (witnessPrefix v r S) v S 0 1 0 1
    (witnessBase v r a y S) Nat.one_ne_zero 0 hn 0 0 r 0 (smul_zero 8) hr [] hw hp (Or.inl rfl) a y ha hy rfl _ rfl (Or.inl rfl) ?_
  -- the only position is 0; whatever key the scan selects there, the honest witness is the sender's
  intro m hm K hK _
  have hm0 : m = 0 := by
    have : m < 1 := hm
    omega
  subst hm0
  have hKe : K = edOps.enc (Spec.Sender.txKey (specPrims edOps) r (Spec.Sender.destAt (specPrims edOps) v S 0 0) + 0) := by
    rcases hK with h | ⟨h, _⟩
    · exact h
    · exfalso
      have hadd := (C07.C07_keys_of_sender_extra (ops := edOps) (witnessPrefix v r S) _ hw hp).2
      rw [hadd] at h
      simp [Extra.txAdditionalPubkeys] at h
  exact ⟨0, 0, r, 0, a, y, smul_zero 8, ha, hy, hKe, rfl, Or.inl rfl⟩

/-- **The situation of `C08_gen_input_ringct_opened` occurs**: a transaction whose only input is `TxIn::Gen` (`witnessPrefix`:
`ins = [.gen 1]`, clear amount 0) with a base of type 1 ≠ Null scans — through `Transaction::check_outputs` — to `Ok`, and the entry
for its output reports the OPENED amount `a` (any `a < 2^64`, e.g. `a ≠ 0` where the clear amount 0 would have been `None`). -/
theorem C08_gen_input_witness (v r a y : Nat) (S : EdPoint) (ha : a < 2 ^ 64) (hy : y < edOps.l) :
    ∃ (t : Tx) (ws : List Owned), t.pre.ins = [.gen 1] ∧ (∃ bb, t.base = some bb ∧ bb.ty ≠ 0) ∧
      checkOutputsTx edOps decPermissive t v S 0 1 0 1 = .ok ws ∧
      ∃ w ∈ ws, w.out.amount = 0 ∧ (∃ o, w.opening = some o ∧ o.amount = a) ∧ w.amount = some a := by
  obtain ⟨ws, hws, w, hw, h0, ham, _, _⟩ := C08_witness_ed25519 v r a y S ha hy
  let t : Tx := ⟨witnessPrefix v r S, [], some (witnessBase v r a y S), none⟩
  have hws' : checkOutputsTx edOps decPermissive t v S 0 1 0 1 = .ok ws := hws
  refine ⟨t, ws, rfl, ⟨_, rfl, Nat.one_ne_zero⟩, hws', w, hw, ?_, ?_, ham⟩
  · obtain ⟨_, _, _, hall⟩ := C07.C07_sound edOps_lawful decPermissive _ v S 0 1 0 1 _ ws hws
    obtain ⟨_, hout, _⟩ := hall w hw
    rw [hout]
    simp only [h0]
    rfl
  · obtain ⟨o, ho, hoa⟩ := C08_gen_input_ringct_opened edOps_lawful decPermissive t _ rfl Nat.one_ne_zero v S 0 1 0 1 ws hws' w hw
    rw [ham] at hoa
    exact ⟨o, ho, (Option.some.inj hoa).symm⟩
end Ed25519
end C08
