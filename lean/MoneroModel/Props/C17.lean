import MoneroModel.Model.HashScalar
import MoneroModel.Proofs.LeBytes
import MoneroModel.Proofs.KeccakLemmas
import MoneroModel.Proofs.HashScalarSpec
/-! C17 — "Hashing is Keccak-256 with original padding; hash-to-scalar reduces modulo l".
What is proved: the reduction `hs`, the padding rule and the block structure of the sponge of the reference (= model)
function, and a handful of published Keccak-256 test vectors by kernel evaluation (`decide +kernel`;
these are tests of the reference, labelled so). What is NOT provable here: that `tiny-keccak` (which the library wraps) is
Keccak-f[1600] on all inputs — that part of the property is decided by conformance (Drv/C17 + harness/src/c17.rs). -/
namespace C17
open Monero Monero.HashScalar Keccak Ed

/-- hash-to-scalar reduction: the result is a reduced scalar; it *is* the little-endian value modulo `l`; digests already
below `l` are unchanged; the 32-byte output encodes exactly that value; for 32-byte digests the output bytes equal the
digest iff nothing had to be reduced. -/
theorem C17_hs (d : Bytes) :
    hs d < Ed.l ∧ hs d = leNat d % Ed.l ∧ (leNat d < Ed.l → hs d = leNat d) ∧
    (hsBytes d).length = 32 ∧ leNat (hsBytes d) = hs d ∧
    (d.length = 32 → (hsBytes d = d ↔ leNat d < Ed.l)) := by
  have hl : 0 < Ed.l := by decide
  have hlt : hs d < Ed.l := Nat.mod_lt _ hl
  have hl256 : Ed.l < 256 ^ 32 := by decide
  have henc : leNat (hsBytes d) = hs d := leNat_toBytesLE 32 _ (Nat.lt_trans hlt hl256)
  refine ⟨hlt, rfl, fun h => Nat.mod_eq_of_lt h, length_toBytesLE _ _, henc, ?_⟩
  intro h32
  constructor
  · intro h; rw [h] at henc; rw [henc]; exact hlt
  · intro h
    apply leNat_injective (by rw [h32]; exact length_toBytesLE _ _)
    rw [henc]; exact Nat.mod_eq_of_lt h

/-- little-endian encoding round trip on 32 bytes (both directions) -/
theorem C17_le_roundtrip :
    (∀ n, n < 2 ^ 256 → leNat (toBytesLE n 32) = n) ∧
    (∀ b : Bytes, b.length = 32 → toBytesLE (leNat b) 32 = b ∧ leNat b < 2 ^ 256) := by
  constructor
  · intro n h; exact leNat_toBytesLE 32 n (by rw [show (256 : Nat) ^ 32 = 2 ^ 256 by decide]; exact h)
  · intro b h
    refine ⟨by rw [← h]; exact toBytesLE_leNat b, ?_⟩
    have := leNat_lt b
    rw [h, show (256 : Nat) ^ 32 = 2 ^ 256 by decide] at this
    exact this

/-- `hash_to_scalar` is `as_scalar ∘ hash`, for the library's hash and for any other -/
theorem C17_hash_to_scalar (H : Bytes → Bytes) (m : Bytes) :
    hashToScalar H m = leNat (H m) % Ed.l ∧ hashToScalar H m < Ed.l ∧
    leNat (hashToScalarBytes H m) = hashToScalar H m ∧ hashToScalarBytes H m = hsBytes (H m) :=
  ⟨rfl, (C17_hs (H m)).1, (C17_hs (H m)).2.2.2.2.1, rfl⟩

/-- the independently written statement (big-endian Horner reading of the reversed string, literal order, remainder by
`n − ⌊n/l⌋·l`, bytes by repeated division) denotes the same function as the model -/
theorem C17_hs_spec (d : Bytes) : Spec.HashScalar.scalarOfDigest d = hsBytes d := Spec.HashScalar.scalarOfDigest_eq d

/-- padded length: a positive multiple of the rate 136; between 1 and 136 bytes are added -/
theorem C17_pad_len (m : Bytes) :
    (pad m).length % 136 = 0 ∧ 0 < (pad m).length ∧
    1 ≤ (pad m).length - m.length ∧ (pad m).length - m.length ≤ 136 ∧
    (pad m).length = 136 * (m.length / 136 + 1) := by
  have hp := pad_length m
  have hr : m.length % 136 < 136 := Nat.mod_lt _ (by decide)
  have hd := Nat.div_add_mod m.length 136
  simp only [rate] at hp
  omega

/-- padding shape (original Keccak `pad10*1` with domain bits `01`… i.e. first pad byte 0x01, last pad byte 0x80, zeros in
between; the two coincide as 0x81 when exactly one byte is missing) — and the message is a prefix -/
theorem C17_pad_shape (m : Bytes) :
    (m.length % 136 = 135 → pad m = m ++ [0x81]) ∧
    (m.length % 136 ≠ 135 → pad m = m ++ [0x01] ++ List.replicate (134 - m.length % 136) 0 ++ [0x80]) ∧
    (pad m).take m.length = m := by
  have h := pad_eq m
  refine ⟨fun h1 => by rw [h, if_pos h1], fun h1 => by rw [h, if_neg h1], ?_⟩
  by_cases h1 : m.length % 136 = 135
  · rw [h, if_pos h1]; simp
  · rw [h, if_neg h1]; simp [List.append_assoc]

/-- one full block is absorbed by XOR into the state followed by one permutation; the empty tail leaves the state unchanged -/
theorem C17_absorb_step (st : Array UInt64) (blk rest : Bytes) (h : blk.length = 136) :
    absorb st (blk ++ rest) = absorb (f1600 (xorBlock st blk)) rest ∧ absorb st [] = st :=
  ⟨absorb_step st blk rest h, absorb_nil st⟩

/-- the sponge processes exactly `|pad m| / 136 = ⌊|m|/136⌋ + 1` blocks of 136 bytes each, in order, and these blocks are
a partition of `pad m`; the digest is the first 32 bytes of the final state (lanes little-endian) -/
theorem C17_absorb_blocks (m : Bytes) :
    let n := m.length / 136 + 1
    let bs := blocks n (pad m)
    absorb (Array.replicate 25 0) (pad m) = bs.foldl (fun st blk => f1600 (xorBlock st blk)) (Array.replicate 25 0) ∧
    bs.length = n ∧ n = (pad m).length / 136 ∧ (∀ b ∈ bs, b.length = 136) ∧ bs.flatten = pad m := by
  intro n bs
  have hlen : (pad m).length = rate * n := (C17_pad_len m).2.2.2.2
  obtain ⟨h1, h2⟩ := blocks_spec n (pad m) hlen
  refine ⟨absorb_blocks n _ _ hlen, blocks_length n _, ?_, h1, h2⟩
  rw [hlen]; simp [rate]

set_option maxRecDepth 100000 in
/-- published Keccak-256 vector for the empty string (a test of the reference by kernel evaluation) -/
theorem C17_kats_empty : keccak256 [] =
    [0xc5,0xd2,0x46,0x01,0x86,0xf7,0x23,0x3c,0x92,0x7e,0x7d,0xb2,0xdc,0xc7,0x03,0xc0,0xe5,0x00,0xb6,0x53,0xca,0x82,0x27,0x3b,0x7b,0xfa,0xd8,0x04,0x5d,0x85,0xa4,0x70] := by decide +kernel

set_option maxRecDepth 100000 in
/-- published Keccak-256 vector for "abc" (a test of the reference by kernel evaluation) -/
theorem C17_kats_abc : keccak256 [97,98,99] =
    [0x4e,0x03,0x65,0x7a,0xea,0x45,0xa9,0x4f,0xc7,0xd4,0x7b,0xa8,0x26,0xc8,0xd6,0x67,0xc0,0xd1,0xe6,0xe3,0x3a,0x64,0xa0,0x36,0xec,0x44,0xf5,0x8f,0xa1,0x2d,0x6c,0x45] := by decide +kernel

set_option maxRecDepth 100000 in
/-- published Keccak-256 vector for "The quick brown fox jumps over the lazy dog" (a test of the reference by kernel evaluation) -/
theorem C17_kats_fox : keccak256 [84,104,101,32,113,117,105,99,107,32,98,114,111,119,110,32,102,111,120,32,106,117,109,112,115,32,111,118,101,114,32,116,104,101,32,108,97,122,121,32,100,111,103] =
    [0x4d,0x74,0x1b,0x6f,0x1e,0xb2,0x9c,0xb2,0xa9,0xb9,0x91,0x1c,0x82,0xf5,0x6f,0xa8,0xd7,0x3b,0x04,0x95,0x9d,0x3d,0x9d,0x22,0x28,0x95,0xdf,0x6c,0x0b,0x28,0xaa,0x15] := by decide +kernel

set_option maxRecDepth 100000 in
/-- two-block vector: 200 bytes 0xa3 (regression value — agreed on by tiny-keccak and the reference; not a published vector) -/
theorem C17_kats_two_blocks : keccak256 (List.replicate 200 0xa3) =
    [0x3a,0x57,0x66,0x6b,0x04,0x87,0x77,0xf2,0xc9,0x53,0xdc,0x44,0x56,0xf4,0x5a,0x25,0x88,0xe1,0xcb,0x6f,0x2d,0xa7,0x60,0x12,0x2d,0x53,0x0a,0xc2,0xce,0x60,0x7d,0x4a] := by decide +kernel

/-- hypotheses are satisfiable / the statements are not vacuous: a digest ≥ l is really reduced, one below is not -/
example : hs (toBytesLE (Ed.l + 5) 32) = 5 := by decide +kernel
example : hsBytes (List.replicate 32 0xff) ≠ List.replicate 32 0xff := by decide +kernel
example : (pad (List.replicate 135 0)).length = 136 ∧ (pad (List.replicate 136 0)).length = 272 := by decide +kernel

end C17
