import MoneroModel.Model.HashScalar
import MoneroModel.Proofs.LeBytes
import MoneroModel.Proofs.KeccakLemmas
import MoneroModel.Proofs.HashScalarSpec
import MoneroModel.Proofs.KeccakSize
import MoneroModel.Proofs.KeccakKat
import MoneroModel.Proofs.KeccakChecked
/-! C17 — "Hashing is Keccak-256 with original padding; hash-to-scalar reduces modulo l".
What is proved: the reduction `hs`, the padding rule and the block structure of the sponge of the reference (= model)
function, that the reference equals a fully bounds-checked copy of itself (`C17_bounds_checked`), and a handful of published
Keccak-256 test vectors by kernel evaluation (`decide +kernel`; these are tests of the reference, labelled so). What is NOT provable here: that `tiny-keccak` (which the library wraps) is
Keccak-f[1600] on all inputs — that part of the property is decided by conformance (Drv/C17 + harness/src/c17.rs). -/
namespace C17
open Monero Monero.HashScalar Keccak Ed

/-- hash-to-scalar reduction: the result is a reduced scalar; it *is* the little-endian value modulo `l`; digests already
below `l` are unchanged; the 32-byte output encodes exactly that value; for 32-byte digests the output bytes equal the
digest iff nothing had to be reduced. -/
theorem C17_hs (d : Bytes) :
    hs d < Ed.l ∧ hs d = leNat d % Ed.l ∧ (leNat d < Ed.l → hs d = leNat d) ∧
    (hsBytes d).length = 32 ∧ leNat (hsBytes d) = hs d ∧
    (d.length = 32 → (hsBytes d = d ↔ leNat d < Ed.l)) := by
  have hl : 0 < Ed.l := by decide
  have hlt : hs d < Ed.l := Nat.mod_lt _ hl
  have hl256 : Ed.l < 256 ^ 32 := by decide
  have henc : leNat (hsBytes d) = hs d := leNat_toBytesLE 32 _ (Nat.lt_trans hlt hl256)
  refine ⟨hlt, rfl, fun h => Nat.mod_eq_of_lt h, length_toBytesLE _ _, henc, ?_⟩
  intro h32
  constructor
  · intro h; rw [h] at henc; rw [henc]; exact hlt
  · intro h
    apply leNat_injective (by rw [h32]; exact length_toBytesLE _ _)
    rw [henc]; exact Nat.mod_eq_of_lt h

/-- little-endian encoding round trip on 32 bytes (both directions) -/
theorem C17_le_roundtrip :
    (∀ n, n < 2 ^ 256 → leNat (toBytesLE n 32) = n) ∧
    (∀ b : Bytes, b.length = 32 → toBytesLE (leNat b) 32 = b ∧ leNat b < 2 ^ 256) := by
  constructor
  · intro n h; exact leNat_toBytesLE 32 n (by rw [show (256 : Nat) ^ 32 = 2 ^ 256 by decide]; exact h)
  · intro b h
    refine ⟨by rw [← h]; exact toBytesLE_leNat b, ?_⟩
    have := leNat_lt b
    rw [h, show (256 : Nat) ^ 32 = 2 ^ 256 by decide] at this
    exact this

/-- `hash_to_scalar` is `as_scalar ∘ hash`, for the library's hash and for any other -/
theorem C17_hash_to_scalar (H : Bytes → Bytes) (m : Bytes) :
    hashToScalar H m = leNat (H m) % Ed.l ∧ hashToScalar H m < Ed.l ∧
    leNat (hashToScalarBytes H m) = hashToScalar H m ∧ hashToScalarBytes H m = hsBytes (H m) :=
  ⟨rfl, (C17_hs (H m)).1, (C17_hs (H m)).2.2.2.2.1, rfl⟩

/-- the independently written statement (big-endian Horner reading of the reversed string, literal order, remainder by
`n − ⌊n/l⌋·l`, bytes by repeated division) denotes the same function as the model -/
theorem C17_hs_spec (d : Bytes) : Spec.HashScalar.scalarOfDigest d = hsBytes d := Spec.HashScalar.scalarOfDigest_eq d

/-- the digest of the reference (= model) hash has exactly 32 bytes, for every message: the reduction below is always applied
to a 32-byte string, as in the Rust type `[u8; 32]` -/
theorem C17_keccak_len (m : Bytes) : (keccak256 m).length = 32 ∧ (hashNew m).length = 32 := by
  simp [keccak256, hashNew]

/-- COROLLARY of `C17_hs` / `C17_hs_spec` / `C17_keccak_len` at `d = keccak256 m` — no information beyond them; it only spells out what
they give for `Hash::hash_to_scalar` of the model, whose hash `hashNew` is BY DEFINITION the reference Keccak-256 (conjuncts 1 and 4 are
`rfl`; that the library's `keccak_256` is this function is decided by conformance, not here): the digest has 32 bytes and value below
2^256, the scalar is the little-endian value of that digest modulo `l`, it is reduced, its 32-byte encoding is what the independently
written `Spec.HashScalar.scalarOfDigest` yields on the Keccak digest, and the encoding equals the digest exactly when the digest was
already below `l` (both sides occur: the examples at the end of the file). -/
theorem C17_hash_to_scalar_keccak (m : Bytes) :
    hashNew m = keccak256 m ∧ (hashNew m).length = 32 ∧ leNat (keccak256 m) < 2 ^ 256 ∧
    hashToScalar hashNew m = leNat (keccak256 m) % Ed.l ∧ hashToScalar hashNew m < Ed.l ∧
    hashToScalarBytes hashNew m = Spec.HashScalar.scalarOfDigest (keccak256 m) ∧
    (hashToScalarBytes hashNew m).length = 32 ∧ leNat (hashToScalarBytes hashNew m) = leNat (keccak256 m) % Ed.l ∧
    (hashToScalarBytes hashNew m = keccak256 m ↔ leNat (keccak256 m) < Ed.l) := by
  have hlen := (C17_keccak_len m).1
  have h := C17_hs (keccak256 m)
  refine ⟨rfl, (C17_keccak_len m).2, (C17_le_roundtrip.2 _ hlen).2, rfl, h.1, ?_, h.2.2.2.1, h.2.2.2.2.1, h.2.2.2.2.2 hlen⟩
  rw [C17_hs_spec]; rfl

/-- UNFOLDING of the model definition `hashableToScalarBytes hash x := hsBytes (hash x)` (Model/HashScalar.lean; the model of the provided
trait method `Hashable::hash_to_scalar`, hash.rs:111-113, `self.hash().as_scalar()`), with `C17_hs` / `C17_hs_spec` re-instantiated at
`d = hash x`: conjuncts 1 and 6 hold by `rfl`, 2-5 are `C17_hs (hash x)`. It is a statement about that one-line definition, for an arbitrary
function `hash`; it says nothing about what `hash()` of a `PublicKey` / `Transaction` / … is (the last conjunct merely instantiates
`hash := hashNew`), and no change of the Rust can make it fail. That the provided method of the LIBRARY is this function — one hash, one
reduction, on every implementor — is decided differentially (ops `c17_trait_hs`, `c17_trait_hs_tx`, and the direct check
`x.hash_to_scalar() == x.hash().as_scalar()` of harness/src/c17.rs). Kept because the last `example` of the file uses it to show that a
method hashing twice is a different function. -/
theorem C17_hashable_hash_to_scalar {α : Type} (hash : α → Bytes) (x : α) :
    hashableToScalarBytes hash x = hsBytes (hash x) ∧
    hashableToScalarBytes hash x = Spec.HashScalar.scalarOfDigest (hash x) ∧
    (hashableToScalarBytes hash x).length = 32 ∧
    leNat (hashableToScalarBytes hash x) = leNat (hash x) % Ed.l ∧ leNat (hashableToScalarBytes hash x) < Ed.l ∧
    (∀ k : Bytes, hashableToScalarBytes hashNew k = hashToScalarBytes hashNew k) := by
  have h := C17_hs (hash x)
  have h4 : leNat (hashableToScalarBytes hash x) = leNat (hash x) % Ed.l := h.2.2.2.2.1
  exact ⟨rfl, (C17_hs_spec _).symm, h.2.2.2.1, h4, by rw [h4]; exact h.1, fun _ => rfl⟩

/-- padded length: a positive multiple of the rate 136; between 1 and 136 bytes are added -/
theorem C17_pad_len (m : Bytes) :
    (pad m).length % 136 = 0 ∧ 0 < (pad m).length ∧
    1 ≤ (pad m).length - m.length ∧ (pad m).length - m.length ≤ 136 ∧
    (pad m).length = 136 * (m.length / 136 + 1) := by
  have hp := pad_length m
  have hr : m.length % 136 < 136 := Nat.mod_lt _ (by decide)
  have hd := Nat.div_add_mod m.length 136
  simp only [rate] at hp
  omega

/-- padding shape (original Keccak `pad10*1` with domain bits `01`… i.e. first pad byte 0x01, last pad byte 0x80, zeros in
between; the two coincide as 0x81 when exactly one byte is missing) — and the message is a prefix -/
theorem C17_pad_shape (m : Bytes) :
    (m.length % 136 = 135 → pad m = m ++ [0x81]) ∧
    (m.length % 136 ≠ 135 → pad m = m ++ [0x01] ++ List.replicate (134 - m.length % 136) 0 ++ [0x80]) ∧
    (pad m).take m.length = m := by
  have h := pad_eq m
  refine ⟨fun h1 => by rw [h, if_pos h1], fun h1 => by rw [h, if_neg h1], ?_⟩
  by_cases h1 : m.length % 136 = 135
  · rw [h, if_pos h1]; simp
  · rw [h, if_neg h1]; simp [List.append_assoc]

/-- one full block is absorbed by XOR into the state followed by one permutation; the empty tail leaves the state unchanged -/
theorem C17_absorb_step (st : Array UInt64) (blk rest : Bytes) (h : blk.length = 136) :
    absorb st (blk ++ rest) = absorb (f1600 (xorBlock st blk)) rest ∧ absorb st [] = st :=
  ⟨absorb_step st blk rest h, absorb_nil st⟩

/-- the sponge processes exactly `|pad m| / 136 = ⌊|m|/136⌋ + 1` blocks of 136 bytes each, in order, and these blocks are
a partition of `pad m`; the digest is the first 32 bytes of the final state (lanes little-endian) -/
theorem C17_absorb_blocks (m : Bytes) :
    let n := m.length / 136 + 1
    let bs := blocks n (pad m)
    absorb (Array.replicate 25 0) (pad m) = bs.foldl (fun st blk => f1600 (xorBlock st blk)) (Array.replicate 25 0) ∧
    bs.length = n ∧ n = (pad m).length / 136 ∧ (∀ b ∈ bs, b.length = 136) ∧ bs.flatten = pad m := by
  intro n bs
  have hlen : (pad m).length = rate * n := (C17_pad_len m).2.2.2.2
  obtain ⟨h1, h2⟩ := blocks_spec n (pad m) hlen
  refine ⟨absorb_blocks n _ _ hlen, blocks_length n _, ?_, h1, h2⟩
  rw [hlen]; simp [rate]

/-- the padding is injective: two different messages never give the same padded string (so the only place where the reference
can map different messages to one digest is the compression by the sponge itself) -/
theorem C17_pad_injective (a b : Bytes) (h : pad a = pad b) : a = b := pad_injective a b h

/-- the number of lanes is invariant: XOR-ing a block in and the permutation keep the size of ANY state array, so the state of the
reference sponge has exactly 25 lanes after absorbing any padded message; the lane indices of the pi step are below 25 and the three
tables have 24 entries. This is only the PREREQUISITE of the next theorem (it supplies its hypothesis `st.size = 25` along `absorb`):
by itself it says nothing about the indices used by `st[i]!` / `set!` — an out-of-range `set!` preserves the size too. -/
theorem C17_state_size (m : Bytes) :
    (absorb (Array.replicate 25 0) (pad m)).size = 25 ∧
    (∀ st : Array UInt64, (f1600 st).size = st.size) ∧ (∀ (st : Array UInt64) (blk : Bytes), (xorBlock st blk).size = st.size) ∧
    (∀ i ∈ piln.toList, i < 25) ∧ piln.size = 24 ∧ rotc.size = 24 ∧ rc.size = 24 :=
  ⟨state_size _, f1600_size, xorBlock_size, by decide, rfl, rfl, rfl⟩

/-- NO totalised accessor of the reference falls back. `Ref/Keccak.lean` reads and writes lanes with `st[i]!` / `st.set! i x` / `rc[r]!`
(out of range: read 0, write dropped). `Proofs/KeccakChecked.lean` writes the same algorithm over `State = Vector UInt64 25` with the
proof-carrying accessors `v[i]'h` / `v.set i x h` ONLY — `roundV`, `f1600V`, `xorBlockV`, `digestV`, `absorbV`, `keccak256V` are
accepted by Lean only because every index is proved in range (`i+20`, `j*5+i`, `j*5+4` for `i, j < 5`; `piln[i] < 25`; block byte
`i < 200` ↦ lane `i/8 < 25`; digest byte `i < 32` ↦ lane `i/8 < 4`; `rc[r]`, `rotc[i]`, `piln[i]` for `r, i < 24`). Proved: on a state
with 25 lanes, one round (round number below 24), the permutation, the XOR of a block of at most 200 bytes (the sponge uses 136) and
the squeezing step of the reference ARE the checked functions; `absorb` from a 25-lane state is the checked absorption for every input;
and for EVERY message `keccak256 m = keccak256V m`. The hypotheses are needed: with fewer lanes the reference does fall back (second
example at the end of the file). -/
theorem C17_bounds_checked :
    (∀ (st : Array UInt64) (hs : st.size = 25) (r : Nat) (hr : r < 24), round st r = (roundV ⟨st, hs⟩ (rc[r]'hr)).toArray) ∧
    (∀ (st : Array UInt64) (hs : st.size = 25), f1600 st = (f1600V ⟨st, hs⟩).toArray) ∧
    (∀ (st : Array UInt64) (hs : st.size = 25) (blk : Bytes) (hb : blk.length ≤ 200), xorBlock st blk = (xorBlockV ⟨st, hs⟩ blk hb).toArray) ∧
    (∀ (st : Array UInt64) (hs : st.size = 25), digestOf st = digestV ⟨st, hs⟩) ∧
    (∀ (v : State) (m : Bytes), absorb v.toArray m = (absorbV v m).toArray) ∧
    (∀ m : Bytes, keccak256 m = keccak256V m) :=
  ⟨round_checked, f1600_checked, xorBlock_checked, digest_checked,
   fun v m => absorb_checked m.length m v (Nat.le_refl _), keccak256_checked⟩

/-- the whole reference function in one statement: pad (original Keccak rule), cut into `⌊|m|/136⌋ + 1` blocks of 136 bytes, fold
"XOR the block in, permute" over them from the all-zero 25-lane state, output the first 32 bytes of the state (lanes little-endian) -/
theorem C17_keccak_sponge (m : Bytes) :
    keccak256 m = digestOf ((blocks (m.length / 136 + 1) (pad m)).foldl (fun st blk => f1600 (xorBlock st blk)) (Array.replicate 25 0)) ∧
    ((blocks (m.length / 136 + 1) (pad m)).foldl (fun st blk => f1600 (xorBlock st blk)) (Array.replicate 25 0)).size = 25 := by
  have h : absorb (Array.replicate 25 0) (pad m) =
      (blocks (m.length / 136 + 1) (pad m)).foldl (fun st blk => f1600 (xorBlock st blk)) (Array.replicate 25 0) := (C17_absorb_blocks m).1
  rw [← h]
  exact ⟨keccak256_eq m, state_size _⟩

/-- the three constant tables of the reference are the ones GENERATED by the rules of the Keccak specification — round constants:
bit `2^j − 1` of `RC[i]` is the constant term of `x^(j+7i) mod x^8+x^6+x^5+x^4+1`; rho offsets `(t+1)(t+2)/2 mod 64`; pi walk
`(x,y) ↦ (y, 2x+3y mod 5)` from `(1,0)`, lane index `x + 5y` — so a slip in a hand-copied table entry is excluded (kernel evaluation) -/
theorem C17_tables_generated :
    rc.toList.map UInt64.toNat = rcTable 24 1 ∧ rotc.toList = rhoOffsets ∧ piln.toList = piWalk 24 (1, 0) :=
  ⟨rc_generated, rotc_generated, piln_generated⟩

/-- published Keccak-256 vector for the empty string (a test of the reference by kernel evaluation) -/
theorem C17_kats_empty : keccak256 [] =
    [0xc5,0xd2,0x46,0x01,0x86,0xf7,0x23,0x3c,0x92,0x7e,0x7d,0xb2,0xdc,0xc7,0x03,0xc0,0xe5,0x00,0xb6,0x53,0xca,0x82,0x27,0x3b,0x7b,0xfa,0xd8,0x04,0x5d,0x85,0xa4,0x70] := kat_empty

/-- published Keccak-256 vector for "abc" (a test of the reference by kernel evaluation) -/
theorem C17_kats_abc : keccak256 [97,98,99] =
    [0x4e,0x03,0x65,0x7a,0xea,0x45,0xa9,0x4f,0xc7,0xd4,0x7b,0xa8,0x26,0xc8,0xd6,0x67,0xc0,0xd1,0xe6,0xe3,0x3a,0x64,0xa0,0x36,0xec,0x44,0xf5,0x8f,0xa1,0x2d,0x6c,0x45] := kat_abc

/-- published Keccak-256 vector for "The quick brown fox jumps over the lazy dog" (a test of the reference by kernel evaluation) -/
theorem C17_kats_fox : keccak256 [84,104,101,32,113,117,105,99,107,32,98,114,111,119,110,32,102,111,120,32,106,117,109,112,115,32,111,118,101,114,32,116,104,101,32,108,97,122,121,32,100,111,103] =
    [0x4d,0x74,0x1b,0x6f,0x1e,0xb2,0x9c,0xb2,0xa9,0xb9,0x91,0x1c,0x82,0xf5,0x6f,0xa8,0xd7,0x3b,0x04,0x95,0x9d,0x3d,0x9d,0x22,0x28,0x95,0xdf,0x6c,0x0b,0x28,0xaa,0x15] := kat_fox

/-- two-block vector: 200 bytes 0xa3 (regression value on which tiny-keccak, the table-free Rust Keccak of harness/src/c17.rs and this
reference agree — every harness run hashes this message with all three, family `kat`; not a published vector) -/
theorem C17_kats_two_blocks : keccak256 (List.replicate 200 0xa3) =
    [0x3a,0x57,0x66,0x6b,0x04,0x87,0x77,0xf2,0xc9,0x53,0xdc,0x44,0x56,0xf4,0x5a,0x25,0x88,0xe1,0xcb,0x6f,0x2d,0xa7,0x60,0x12,0x2d,0x53,0x0a,0xc2,0xce,0x60,0x7d,0x4a] := kat_two_blocks

/-- NIST example values for SHA3-256 (empty message; 200 bytes 0xa3 = two blocks) reproduced by the reference sponge when only the
first pad byte is 0x06 instead of 0x01 (`Keccak.sha3_256` uses the SAME `absorb`, `xorBlock`, `f1600` and squeezing as `keccak256`): a
published multi-block vector, from outside tiny-keccak, behind the permutation and the block-wise absorption (a test by kernel
evaluation; the padding itself is covered for every message by `C17_pad_shape`). "Only the first pad byte differs" is the last
conjunct: for every message the SHA-3 padded string is `pad m` with the bits 0x07 of the byte at position `|m|` flipped (0x01 ↦ 0x06,
0x81 ↦ 0x86), that position being inside `pad m`. -/
theorem C17_kats_sha3_nist :
    sha3_256 [] = [0xa7,0xff,0xc6,0xf8,0xbf,0x1e,0xd7,0x66,0x51,0xc1,0x47,0x56,0xa0,0x61,0xd6,0x62,0xf5,0x80,0xff,0x4d,0xe4,0x3b,0x49,0xfa,0x82,0xd8,0x0a,0x4b,0x80,0xf8,0x43,0x4a] ∧
    sha3_256 (List.replicate 200 0xa3) = [0x79,0xf3,0x8a,0xde,0xc5,0xc2,0x03,0x07,0xa9,0x8e,0xf7,0x6e,0x83,0x24,0xaf,0xbf,0xd4,0x6c,0xfd,0x81,0xb2,0x2e,0x39,0x73,0xc6,0x5f,0xa1,0xbd,0x9d,0xe3,0x17,0x87] ∧
    (∀ m : Bytes, sha3_256 m = digestOf (absorb (Array.replicate 25 0) (padSha3 m))) ∧
    (∀ m : Bytes, keccak256 m = digestOf (absorb (Array.replicate 25 0) (pad m))) ∧
    (∀ m : Bytes, m.length < (pad m).length ∧ padSha3 m = (pad m).set m.length ((pad m)[m.length]! ^^^ 0x07)) :=
  ⟨sha3_256_empty, sha3_256_nist_1600, fun _ => rfl, keccak256_eq, padSha3_eq⟩

/-- 135-byte message 0,1,…,134: the single-pad-byte (0x81) branch evaluated in the kernel (regression value on which tiny-keccak, the
table-free Rust Keccak of harness/src/c17.rs and this reference agree — every harness run hashes this message with all three, family
`kat`; not a published vector) -/
theorem C17_kats_len135 : keccak256 ((List.range 135).map UInt8.ofNat) =
    [0xcb,0xdf,0xd9,0xde,0xe5,0xfa,0xad,0x38,0x18,0xd6,0xb0,0x6f,0x95,0xa2,0x19,0xfd,0x29,0x0b,0x0e,0x17,0x06,0xf6,0xa8,0x2e,0x5a,0x59,0x5b,0x9c,0xe9,0xfa,0xca,0x62] :=
  keccak256_len135

/-- hypotheses are satisfiable / the statements are not vacuous: a digest ≥ l is really reduced, one below is not -/
example : hs (toBytesLE (Ed.l + 5) 32) = 5 := by decide +kernel
example : hsBytes (List.replicate 32 0xff) ≠ List.replicate 32 0xff := by decide +kernel
set_option maxRecDepth 100000 in
/-- both sides of the `↔` of `C17_hash_to_scalar_keccak` occur at Keccak digests: the digest of the one-byte message 0x0b is below `l`
(it is its own scalar), the digest of the empty message is not -/
example : leNat (keccak256 [11]) < Ed.l ∧ hashToScalarBytes hashNew [11] = keccak256 [11] ∧
    ¬ leNat (keccak256 []) < Ed.l ∧ hashToScalarBytes hashNew [] ≠ keccak256 [] := by
  have h1 : leNat (keccak256 [11]) < Ed.l := by decide +kernel
  have h2 : ¬ leNat (keccak256 []) < Ed.l := by rw [kat_empty]; decide +kernel
  exact ⟨h1, (C17_hash_to_scalar_keccak [11]).2.2.2.2.2.2.2.2.mpr h1, h2, fun h => h2 ((C17_hash_to_scalar_keccak []).2.2.2.2.2.2.2.2.mp h)⟩
/-- the hypotheses of `C17_bounds_checked` are satisfiable (the initial state; every state reached by `C17_state_size`) … -/
example : (Array.replicate 25 (0 : UInt64)).size = 25 ∧ (List.replicate 136 (0xff : UInt8)).length ≤ 200 := by simp
set_option maxRecDepth 100000 in
/-- … and needed: on a 16-lane array the totalised reference DOES fall back — the last 8 bytes of a 136-byte block (lane 16) are silently
dropped, and a read of lane 20 yields 0 —, which is what `C17_bounds_checked` excludes for 25 lanes -/
example : xorBlock (Array.replicate 16 0) (List.replicate 136 0xff) = xorBlock (Array.replicate 16 0) (List.replicate 128 0xff) ∧
    (Array.replicate 16 (1 : UInt64))[20]! = 0 := by decide +kernel
set_option maxRecDepth 100000 in
/-- `C17_hashable_hash_to_scalar` is not satisfied by a method that hashes again before reducing (the two differ on the empty key) -/
example : hashableToScalarBytes hashNew [] ≠ hsBytes (hashNew (hashNew [])) := by
  show hsBytes (keccak256 []) ≠ hsBytes (keccak256 (keccak256 []))
  rw [kat_empty, kat_empty_twice]; decide +kernel
/-- `C17_pad_injective` has a satisfiable hypothesis only for equal messages; different messages of equal length pad differently -/
example : pad [1, 2] ≠ pad [1, 3] := by decide
example : (pad (List.replicate 135 0)).length = 136 ∧ (pad (List.replicate 136 0)).length = 272 := by decide +kernel

end C17
