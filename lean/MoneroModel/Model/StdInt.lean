/-! Models of the Rust `std` integer methods that `amount.rs` can delegate to, on mathematical integers with the
documented semantics (truncating division; `None` on zero divisor or when the *quotient* overflows). The translator
binds each `checked_*` method of `Amount` / `SignedAmount` to one of these constructors; methods other than the
expected ones (`wrapping_*`, `saturating_*`, euclidean forms) are representable on purpose, so that a swapped method
makes a theorem fail rather than the extraction. -/
inductive StdOp
  | checked_add | checked_sub | checked_mul | checked_div | checked_rem
  | wrapping_add | wrapping_sub | wrapping_mul | wrapping_div | wrapping_rem
  | saturating_add | saturating_sub | saturating_mul
  | checked_div_euclid | checked_rem_euclid
  deriving DecidableEq, Repr
inductive Arith | add | sub | mul | div | rem deriving DecidableEq, Repr

structure IntTy where (lo hi : Int)
def TyU64 : IntTy := ⟨0, 2^64 - 1⟩
def TyI64 : IntTy := ⟨-(2^63), 2^63 - 1⟩
def IntTy.fits (t : IntTy) (x : Int) : Prop := t.lo ≤ x ∧ x ≤ t.hi
instance (t : IntTy) (x : Int) : Decidable (t.fits x) := by unfold IntTy.fits; infer_instance
def IntTy.chk (t : IntTy) (x : Int) : Option Int := if t.fits x then some x else none
def IntTy.wrap (t : IntTy) (x : Int) : Int := (x - t.lo) % (t.hi - t.lo + 1) + t.lo
def IntTy.sat (t : IntTy) (x : Int) : Int := if x < t.lo then t.lo else if x > t.hi then t.hi else x

/-- `none` stands for `None` (checked forms) or a panic (wrapping division by zero) -/
def StdOp.eval (t : IntTy) : StdOp → Int → Int → Option Int
  | .checked_add, a, b => t.chk (a + b)
  | .checked_sub, a, b => t.chk (a - b)
  | .checked_mul, a, b => t.chk (a * b)
  | .checked_div, a, b => if b = 0 then none else t.chk (Int.tdiv a b)
  | .checked_rem, a, b => if b = 0 then none else if t.fits (Int.tdiv a b) then some (Int.tmod a b) else none
  | .wrapping_add, a, b => some (t.wrap (a + b))
  | .wrapping_sub, a, b => some (t.wrap (a - b))
  | .wrapping_mul, a, b => some (t.wrap (a * b))
  | .wrapping_div, a, b => if b = 0 then none else some (t.wrap (Int.tdiv a b))
  | .wrapping_rem, a, b => if b = 0 then none else if t.fits (Int.tdiv a b) then some (Int.tmod a b) else some 0
  | .saturating_add, a, b => some (t.sat (a + b))
  | .saturating_sub, a, b => some (t.sat (a - b))
  | .saturating_mul, a, b => some (t.sat (a * b))
  | .checked_div_euclid, a, b => if b = 0 then none else t.chk (Int.ediv a b)
  | .checked_rem_euclid, a, b => if b = 0 then none else if t.fits (Int.ediv a b) then some (Int.emod a b) else none
