import MoneroModel.Model.Block
import MoneroModel.Model.AmountText
import MoneroModel.Model.Address
import MoneroModel.Model.Extra
/-! # Model of the serde representations (feature `serde`) — C19

A `Json` tree, the readers that `serde` / `serde_json` give to the primitive types and to *derived* `Deserialize`
impls as configured in /repo (no `deny_unknown_fields`, no renames, externally tagged enums), and on top of them
`…J` (= `Serialize`) / `…FromJson` (= `Deserialize`) for the value types of `Model/Tx.lean` and `Model/Block.lean`,
the six amount helper paths of `src/util/amount.rs` `pub mod serde` and the hand-written `Address` impl.

What is modelled from observation of the real output (`serde_json::to_string` of the library's values) and of
`serde_json::from_str` on probes, NOT derived from the source of `serde_derive` / `serde_json` (both are trusted):
* struct → object in declared field order; on input an object in ANY order, unknown keys ignored, a repeated known key
  refused, a missing key refused unless the field is an `Option` (→ `None`) or carries `#[serde(default)]`; or an
  array with exactly the declared number of elements (fewer only for `default` fields);
* newtype structs (`VarInt`, `Hash`, `Hash8`, `RawExtraField`) are their content; `[u8; N]` is an array of exactly
  `N` numbers `0..=255`; `Vec<T>` any array; `Option` is `null` / the value; `Key64` (`BigArray`) an array of
  exactly 64 `Key` objects;
* enums: struct variants `{"Variant":{…}}` (exactly one key; content as for structs), unit variants (`RctType`)
  `"Variant"` on output and `"Variant"` or `{"Variant":null}` on input;
* integers: a JSON integer literal in the range of the Rust type; `-0`, literals with a fraction or exponent and
  integers outside `i64::MIN..=u64::MAX` are floating point to `serde_json` (`Json.flt`) and refused;
* `String` accepts every JSON string; a borrowed `&str` only strings whose JSON text has no escape sequence (`Json.str`
  vs `Json.strEsc`: serde_json hands out an escaped string as owned, not borrowed). Since the fix "as_xmr::vec
  deserialisers read owned strings" no deserialiser of the library asks for `&str` any more (before it, `as_xmr::vec`
  did, and so refused escaped strings and everything a non-borrowing deserialiser such as `from_reader` fed it).
Strings are their UTF-8 bytes, as in `Model/AmountText.lean` and `Model/Address.lean`. -/
namespace Monero

inductive Json where
  | null
  | bool (b : Bool)
  /-- an integer literal in `i64::MIN ..= u64::MAX` (what serde_json keeps as `i64` / `u64`) -/
  | num (n : Int)
  /-- any other number (serde_json: `f64`); never produced by a serialiser below, refused by every typed reader -/
  | flt
  /-- a string whose JSON text contains no escape sequence (deserialisable as borrowed `&str`) -/
  | str (s : Bytes)
  /-- a string whose JSON text contained an escape sequence (only deserialisable as owned `String`) -/
  | strEsc (s : Bytes)
  | arr (xs : List Json)
  | obj (kvs : List (String × Json))

namespace Json

/-- the bytes of an ASCII literal (names of unit variants, literals of the printer) -/
def ascii (s : String) : Bytes := s.toList.map fun c => UInt8.ofNat c.toNat

/-! ## readers of the primitive types -/

def mapOpt {α β} (f : α → Option β) : List α → Option (List β)
  | [] => some []
  | x :: xs =>
    match f x with
    | none => none
    | some y => match mapOpt f xs with | none => none | some ys => some (y :: ys)

/-- `u8` / `u32` / `u64` (`bound` = 2^8, 2^32, 2^64) -/
def readUInt (bound : Nat) : Json → Option Nat
  | .num n => if 0 ≤ n ∧ n.toNat < bound then some n.toNat else none
  | _ => none
/-- `i64` -/
def readI64 : Json → Option Int
  | .num n => if -(2^63 : Int) ≤ n ∧ n < (2^63 : Int) then some n else none
  | _ => none
def readU8 (j : Json) : Option UInt8 := (readUInt 256 j).map UInt8.ofNat
/-- `String::deserialize` -/
def readString : Json → Option Bytes
  | .str s => some s
  | .strEsc s => some s
  | _ => none
/-- `<&str>::deserialize` (kept for reference: no longer used by any reader below) -/
def readBorrowedStr : Json → Option Bytes
  | .str s => some s
  | _ => none
/-- `Vec<T>` -/
def readVec {α} (f : Json → Option α) : Json → Option (List α)
  | .arr xs => mapOpt f xs
  | _ => none
/-- `[T; n]` and `BigArray` -/
def readArrayN {α} (n : Nat) (f : Json → Option α) : Json → Option (List α)
  | .arr xs => if xs.length = n then mapOpt f xs else none
  | _ => none
/-- `Option<T>` -/
def readOption {α} (f : Json → Option α) : Json → Option (Option α)
  | .null => some none
  | j => (f j).map some
/-- `[u8; n]` -/
def readBytesN (n : Nat) : Json → Option Bytes := readArrayN n readU8
/-- `Vec<u8>` -/
def readByteVec : Json → Option Bytes := readVec readU8

/-! ## derived structs -/

def lookupAll (kvs : List (String × Json)) (n : String) : List Json :=
  (kvs.filter fun kv => kv.1 == n).map (·.2)

/-- the view a derived struct visitor has of its input, one slot per declared field: `some v` = given, `none` = absent.
Map form: any order, unknown keys skipped, a repeated declared key is an error. Sequence form: positional, at least
`seqMin` (= the number of fields without `#[serde(default)]` … all trailing) and at most `names.length` elements. -/
def fieldsOf (names : List String) (seqMin : Nat) : Json → Option (List (Option Json))
  | .obj kvs => mapOpt (fun n => match lookupAll kvs n with | [] => some none | [v] => some (some v) | _ => none) names
  | .arr xs =>
    if seqMin ≤ xs.length ∧ xs.length ≤ names.length then some (xs.map some ++ List.replicate (names.length - xs.length) none)
    else none
  | _ => none

/-- a field without default: absent → `missing field` -/
def req {α} (f : Json → Option α) : Option Json → Option α
  | none => none
  | some j => f j
/-- an `Option<T>` field: absent → `None` -/
def optField {α} (f : Json → Option α) : Option Json → Option (Option α)
  | none => some none
  | some j => readOption f j

/-! ## serialisers of the leaves -/

def natJ (n : Nat) : Json := .num n
def bytesJ (b : Bytes) : Json := .arr (b.map fun x => .num x.toNat)
def listJ {α} (f : α → Json) (xs : List α) : Json := .arr (xs.map f)
def optJ {α} (f : α → Json) : Option α → Json
  | none => .null
  | some x => f x

/-- `n` consecutive chunks of `sz` bytes -/
def chunks (sz : Nat) : Nat → Bytes → List Bytes
  | 0, _ => []
  | n+1, b => b.take sz :: chunks sz n (b.drop sz)
/-- the `i`-th 32-byte key of a blob -/
def slice (b : Bytes) (i : Nat) : Bytes := (b.drop (32 * i)).take 32

/-- `Key { key: [u8; 32] }` -/
def keyJ (k : Bytes) : Json := .obj [("key", bytesJ k)]
def keyFromJson (j : Json) : Option Bytes :=
  match fieldsOf ["key"] 1 j with
  | some [k] => req (readBytesN 32) k
  | _ => none

/-- `Key64 { #[serde(with = "BigArray")] keys: [Key; 64] }` on a 2048-byte blob -/
def key64J (b : Bytes) : Json := .obj [("keys", listJ keyJ (chunks 32 64 b))]
def key64FromJson (j : Json) : Option Bytes :=
  match fieldsOf ["keys"] 1 j with
  | some [k] => (req (readArrayN 64 keyFromJson) k).map List.flatten
  | _ => none

/-- `Signature { c: Key, r: Key }` on a 64-byte blob -/
def sigJ (b : Bytes) : Json := .obj [("c", keyJ (slice b 0)), ("r", keyJ (slice b 1))]
def sigFromJson (j : Json) : Option Bytes :=
  match fieldsOf ["c", "r"] 2 j with
  | some [c, r] =>
    match req keyFromJson c, req keyFromJson r with
    | some c, some r => some (c ++ r)
    | _, _ => none
  | _ => none

/-- `CtKey { mask: Key }` -/
def ctKeyJ (k : Bytes) : Json := .obj [("mask", keyJ k)]
def ctKeyFromJson (j : Json) : Option Bytes :=
  match fieldsOf ["mask"] 1 j with
  | some [k] => req keyFromJson k
  | _ => none

def U64 : Nat := 2^64
def U32 : Nat := 2^32

/-! ## transaction prefix -/

/-- `TxIn` (`KeyImage { image: Hash }`, `Hash([u8; 32])` transparent) -/
def txInJ : TxIn → Json
  | .gen h => .obj [("Gen", .obj [("height", natJ h)])]
  | .toKey a o k => .obj [("ToKey", .obj [("amount", natJ a), ("key_offsets", listJ natJ o),
      ("k_image", .obj [("image", bytesJ k)])])]
def keyImageFromJson (j : Json) : Option Bytes :=
  match fieldsOf ["image"] 1 j with
  | some [k] => req (readBytesN 32) k
  | _ => none
def txInFromJson : Json → Option TxIn
  | .obj [(tag, c)] =>
    if tag = "Gen" then
      match fieldsOf ["height"] 1 c with
      | some [h] => (req (readUInt U64) h).map .gen
      | _ => none
    else if tag = "ToKey" then
      match fieldsOf ["amount", "key_offsets", "k_image"] 3 c with
      | some [a, o, k] =>
        match req (readUInt U64) a, req (readVec (readUInt U64)) o, req keyImageFromJson k with
        | some a, some o, some k => some (.toKey a o k)
        | _, _, _ => none
      | _ => none
    else none
  | _ => none

/-- `TxOutTarget` -/
def targetJ : Target → Json
  | .key k => .obj [("ToKey", .obj [("key", bytesJ k)])]
  | .tagged k t => .obj [("ToTaggedKey", .obj [("key", bytesJ k), ("view_tag", natJ t.toNat)])]
def targetFromJson : Json → Option Target
  | .obj [(tag, c)] =>
    if tag = "ToKey" then
      match fieldsOf ["key"] 1 c with
      | some [k] => (req (readBytesN 32) k).map .key
      | _ => none
    else if tag = "ToTaggedKey" then
      match fieldsOf ["key", "view_tag"] 2 c with
      | some [k, t] =>
        match req (readBytesN 32) k, req readU8 t with
        | some k, some t => some (.tagged k t)
        | _, _ => none
      | _ => none
    else none
  | _ => none

/-- `TxOut { amount: VarInt, target: TxOutTarget }` -/
def txOutJ (o : TxOut) : Json := .obj [("amount", natJ o.amount), ("target", targetJ o.target)]
def txOutFromJson (j : Json) : Option TxOut :=
  match fieldsOf ["amount", "target"] 2 j with
  | some [a, t] =>
    match req (readUInt U64) a, req targetFromJson t with
    | some a, some t => some ⟨a, t⟩
    | _, _ => none
  | _ => none

/-- `TransactionPrefix` (`RawExtraField` is `#[serde(transparent)]` over `Vec<u8>`) -/
def prefixJ (p : Prefix) : Json :=
  .obj [("version", natJ p.version), ("unlock_time", natJ p.unlock), ("inputs", listJ txInJ p.ins),
        ("outputs", listJ txOutJ p.outs), ("extra", bytesJ p.extra)]
def prefixFromJson (j : Json) : Option Prefix :=
  match fieldsOf ["version", "unlock_time", "inputs", "outputs", "extra"] 5 j with
  | some [v, u, i, o, e] =>
    match req (readUInt U64) v, req (readUInt U64) u, req (readVec txInFromJson) i, req (readVec txOutFromJson) o,
          req readByteVec e with
    | some v, some u, some i, some o, some e => some ⟨v, u, i, o, e⟩
    | _, _, _, _, _ => none
  | _ => none

/-! ## RingCT -/

def rctNames : List String := ["Null", "Full", "Simple", "Bulletproof", "Bulletproof2", "Clsag", "BulletproofPlus"]
/-- `RctType` (unit variants) -/
def rctTypeJ (ty : Nat) : Json := .str (ascii (rctNames.getD ty ""))
def rctTypeFromJson : Json → Option Nat
  | .str s => rctNames.findIdx? fun n => ascii n == s
  | .strEsc s => rctNames.findIdx? fun n => ascii n == s
  | .obj [(k, .null)] => rctNames.findIdx? fun n => n == k
  | _ => none

/-- `EcdhInfo` (`Hash8([u8; 8])` transparent) -/
def ecdhJ : Ecdh → Json
  | .std m a => .obj [("Standard", .obj [("mask", keyJ m), ("amount", keyJ a)])]
  | .bp a => .obj [("Bulletproof", .obj [("amount", bytesJ a)])]
def ecdhFromJson : Json → Option Ecdh
  | .obj [(tag, c)] =>
    if tag = "Standard" then
      match fieldsOf ["mask", "amount"] 2 c with
      | some [m, a] =>
        match req keyFromJson m, req keyFromJson a with
        | some m, some a => some (.std m a)
        | _, _ => none
      | _ => none
    else if tag = "Bulletproof" then
      match fieldsOf ["amount"] 1 c with
      | some [a] => (req (readBytesN 8) a).map .bp
      | _ => none
    else none
  | _ => none

/-- `RctSigBase`; `txn_fee` through `amount::serde::as_pico` (`u64::serialize` / `u64::deserialize`) -/
def baseJ (b : Base) : Json :=
  .obj [("rct_type", rctTypeJ b.ty), ("txn_fee", natJ b.fee), ("pseudo_outs", listJ keyJ b.pseudo),
        ("ecdh_info", listJ ecdhJ b.ecdh), ("out_pk", listJ ctKeyJ b.outPk)]
def baseFromJson (j : Json) : Option Base :=
  match fieldsOf ["rct_type", "txn_fee", "pseudo_outs", "ecdh_info", "out_pk"] 5 j with
  | some [t, f, p, e, o] =>
    match req rctTypeFromJson t, req (readUInt U64) f, req (readVec keyFromJson) p, req (readVec ecdhFromJson) e,
          req (readVec ctKeyFromJson) o with
    | some t, some f, some p, some e, some o => some ⟨t, f, p, e, o⟩
    | _, _, _, _, _ => none
  | _ => none

/-- `RangeSig { asig: BoroSig { s0: Key64, s1: Key64, ee: Key }, Ci: Key64 }` on the 6176-byte blob -/
def rangeSigJ (b : Bytes) : Json :=
  .obj [("asig", .obj [("s0", key64J (b.take 2048)), ("s1", key64J ((b.drop 2048).take 2048)),
                       ("ee", keyJ ((b.drop 4096).take 32))]),
        ("Ci", key64J (b.drop 4128))]
def boroSigFromJson (j : Json) : Option Bytes :=
  match fieldsOf ["s0", "s1", "ee"] 3 j with
  | some [s0, s1, ee] =>
    match req key64FromJson s0, req key64FromJson s1, req keyFromJson ee with
    | some s0, some s1, some ee => some (s0 ++ (s1 ++ ee))
    | _, _, _ => none
  | _ => none
def rangeSigFromJson (j : Json) : Option Bytes :=
  match fieldsOf ["asig", "Ci"] 2 j with
  | some [a, c] =>
    match req boroSigFromJson a, req key64FromJson c with
    | some a, some c => some (a ++ c)
    | _, _ => none
  | _ => none

/-- `Bulletproof { A, S, T1, T2, taux, mu, L, R, a, b, t }` -/
def bpJ (x : BP) : Json :=
  .obj [("A", keyJ (slice x.fixed 0)), ("S", keyJ (slice x.fixed 1)), ("T1", keyJ (slice x.fixed 2)),
        ("T2", keyJ (slice x.fixed 3)), ("taux", keyJ (slice x.fixed 4)), ("mu", keyJ (slice x.fixed 5)),
        ("L", listJ keyJ x.L), ("R", listJ keyJ x.R),
        ("a", keyJ (slice x.tail 0)), ("b", keyJ (slice x.tail 1)), ("t", keyJ (slice x.tail 2))]
def bpFromJson (j : Json) : Option BP :=
  match fieldsOf ["A", "S", "T1", "T2", "taux", "mu", "L", "R", "a", "b", "t"] 11 j with
  | some [A, S, T1, T2, taux, mu, L, R, a, b, t] =>
    match req keyFromJson A, req keyFromJson S, req keyFromJson T1, req keyFromJson T2, req keyFromJson taux,
          req keyFromJson mu with
    | some A, some S, some T1, some T2, some taux, some mu =>
      match req (readVec keyFromJson) L, req (readVec keyFromJson) R, req keyFromJson a, req keyFromJson b,
            req keyFromJson t with
      | some L, some R, some a, some b, some t => some ⟨A ++ (S ++ (T1 ++ (T2 ++ (taux ++ mu)))), L, R, a ++ (b ++ t)⟩
      | _, _, _, _, _ => none
    | _, _, _, _, _, _ => none
  | _ => none

/-- `BulletproofPlus { A, A1, B, r1, s1, d1, L, R }` -/
def bppJ (x : BPP) : Json :=
  .obj [("A", keyJ (slice x.fixed 0)), ("A1", keyJ (slice x.fixed 1)), ("B", keyJ (slice x.fixed 2)),
        ("r1", keyJ (slice x.fixed 3)), ("s1", keyJ (slice x.fixed 4)), ("d1", keyJ (slice x.fixed 5)),
        ("L", listJ keyJ x.L), ("R", listJ keyJ x.R)]
def bppFromJson (j : Json) : Option BPP :=
  match fieldsOf ["A", "A1", "B", "r1", "s1", "d1", "L", "R"] 8 j with
  | some [A, A1, B, r1, s1, d1, L, R] =>
    match req keyFromJson A, req keyFromJson A1, req keyFromJson B, req keyFromJson r1, req keyFromJson s1,
          req keyFromJson d1 with
    | some A, some A1, some B, some r1, some s1, some d1 =>
      match req (readVec keyFromJson) L, req (readVec keyFromJson) R with
      | some L, some R => some ⟨A ++ (A1 ++ (B ++ (r1 ++ (s1 ++ d1)))), L, R⟩
      | _, _ => none
    | _, _, _, _, _, _ => none
  | _ => none

/-- `MgSig { ss: Vec<Vec<Key>>, cc: Key }` -/
def mgJ (m : MG) : Json := .obj [("ss", listJ (listJ keyJ) m.ss), ("cc", keyJ m.cc)]
def mgFromJson (j : Json) : Option MG :=
  match fieldsOf ["ss", "cc"] 2 j with
  | some [s, c] =>
    match req (readVec (readVec keyFromJson)) s, req keyFromJson c with
    | some s, some c => some ⟨s, c⟩
    | _, _ => none
  | _ => none

/-- `Clsag { s: Vec<Key>, c1: Key, D: Key }` -/
def clsagJ (c : Clsag) : Json := .obj [("s", listJ keyJ c.s), ("c1", keyJ c.c1), ("D", keyJ c.D)]
def clsagFromJson (j : Json) : Option Clsag :=
  match fieldsOf ["s", "c1", "D"] 3 j with
  | some [s, c1, d] =>
    match req (readVec keyFromJson) s, req keyFromJson c1, req keyFromJson d with
    | some s, some c1, some d => some ⟨s, c1, d⟩
    | _, _, _ => none
  | _ => none

/-- `RctSigPrunable` -/
def prunableJ (p : Prunable) : Json :=
  .obj [("range_sigs", listJ rangeSigJ p.rangeSigs), ("bulletproofs", listJ bpJ p.bps),
        ("bulletproofplus", listJ bppJ p.bpps), ("MGs", listJ mgJ p.mgs), ("Clsags", listJ clsagJ p.clsags),
        ("pseudo_outs", listJ keyJ p.pseudo)]
def prunableFromJson (j : Json) : Option Prunable :=
  match fieldsOf ["range_sigs", "bulletproofs", "bulletproofplus", "MGs", "Clsags", "pseudo_outs"] 6 j with
  | some [r, b, bp, m, c, p] =>
    match req (readVec rangeSigFromJson) r, req (readVec bpFromJson) b, req (readVec bppFromJson) bp,
          req (readVec mgFromJson) m, req (readVec clsagFromJson) c, req (readVec keyFromJson) p with
    | some r, some b, some bp, some m, some c, some p => some ⟨r, b, bp, m, c, p⟩
    | _, _, _, _, _, _ => none
  | _ => none

/-! ## transaction, block -/

/-- `RctSig { sig: Option<RctSigBase>, p: Option<RctSigPrunable> }` -/
def rctSigJ (b : Option Base) (p : Option Prunable) : Json := .obj [("sig", optJ baseJ b), ("p", optJ prunableJ p)]
def rctSigFromJson (j : Json) : Option (Option Base × Option Prunable) :=
  match fieldsOf ["sig", "p"] 2 j with
  | some [s, p] =>
    match optField baseFromJson s, optField prunableFromJson p with
    | some s, some p => some (s, p)
    | _, _ => none
  | _ => none

/-- `Transaction { prefix, signatures: Vec<Vec<Signature>>, rct_signatures: RctSig }` -/
def txJ (t : Tx) : Json :=
  .obj [("prefix", prefixJ t.pre), ("signatures", listJ (listJ sigJ) t.sigs), ("rct_signatures", rctSigJ t.base t.prun)]
def txFromJson (j : Json) : Option Tx :=
  match fieldsOf ["prefix", "signatures", "rct_signatures"] 3 j with
  | some [p, s, r] =>
    match req prefixFromJson p, req (readVec (readVec sigFromJson)) s, req rctSigFromJson r with
    | some p, some s, some (b, pr) => some ⟨p, s, b, pr⟩
    | _, _, _ => none
  | _ => none

/-- `BlockHeader { major_version, minor_version, timestamp: VarInt, prev_id: Hash, nonce: u32 }` -/
def headerJ (h : Header) : Json :=
  .obj [("major_version", natJ h.major), ("minor_version", natJ h.minor), ("timestamp", natJ h.timestamp),
        ("prev_id", bytesJ h.prev), ("nonce", natJ h.nonce)]
def headerFromJson (j : Json) : Option Header :=
  match fieldsOf ["major_version", "minor_version", "timestamp", "prev_id", "nonce"] 5 j with
  | some [a, b, c, d, e] =>
    match req (readUInt U64) a, req (readUInt U64) b, req (readUInt U64) c, req (readBytesN 32) d, req (readUInt U32) e with
    | some a, some b, some c, some d, some e => some ⟨a, b, c, d, e⟩
    | _, _, _, _, _ => none
  | _ => none

/-- `Block { header, miner_tx, tx_hashes: Vec<Hash> }` -/
def blockJ (b : Block) : Json :=
  .obj [("header", headerJ b.hdr), ("miner_tx", txJ b.miner), ("tx_hashes", listJ bytesJ b.hashes)]
def blockFromJson (j : Json) : Option Block :=
  match fieldsOf ["header", "miner_tx", "tx_hashes"] 3 j with
  | some [h, t, hs] =>
    match req headerFromJson h, req txFromJson t, req (readVec (readBytesN 32)) hs with
    | some h, some t, some hs => some ⟨h, t, hs⟩
    | _, _, _ => none
  | _ => none

/-- `subaddress::Index { major: u32, minor: u32 }` -/
def indexJ (i : Nat × Nat) : Json := .obj [("major", natJ i.1), ("minor", natJ i.2)]
def indexFromJson (j : Json) : Option (Nat × Nat) :=
  match fieldsOf ["major", "minor"] 2 j with
  | some [a, b] =>
    match req (readUInt U32) a, req (readUInt U32) b with
    | some a, some b => some (a, b)
    | _, _ => none
  | _ => none

/-! ## the values the Rust types can hold

The model types of `Model/Tx.lean` store keys as byte strings of any length and integers as `Nat`; the Rust types are
`[u8; 32]`, `u64`, … . `wf…` says that a model value IS a value of the Rust type (nothing about consensus validity). -/

def wfTxIn : TxIn → Prop
  | .gen h => h < U64
  | .toKey a o k => a < U64 ∧ (∀ x ∈ o, x < U64) ∧ k.length = 32
def wfTarget : Target → Prop
  | .key k => k.length = 32
  | .tagged k _ => k.length = 32
def wfTxOut (o : TxOut) : Prop := o.amount < U64 ∧ wfTarget o.target
def wfPrefix (p : Prefix) : Prop :=
  p.version < U64 ∧ p.unlock < U64 ∧ (∀ i ∈ p.ins, wfTxIn i) ∧ (∀ o ∈ p.outs, wfTxOut o)
def wfEcdh : Ecdh → Prop
  | .std m a => m.length = 32 ∧ a.length = 32
  | .bp a => a.length = 8
def wfBase (b : Base) : Prop :=
  b.ty < 7 ∧ b.fee < U64 ∧ (∀ k ∈ b.pseudo, k.length = 32) ∧ (∀ e ∈ b.ecdh, wfEcdh e) ∧ (∀ k ∈ b.outPk, k.length = 32)
def wfBP (x : BP) : Prop :=
  x.fixed.length = 192 ∧ (∀ k ∈ x.L, k.length = 32) ∧ (∀ k ∈ x.R, k.length = 32) ∧ x.tail.length = 96
def wfBPP (x : BPP) : Prop := x.fixed.length = 192 ∧ (∀ k ∈ x.L, k.length = 32) ∧ (∀ k ∈ x.R, k.length = 32)
def wfMG (m : MG) : Prop := (∀ r ∈ m.ss, ∀ k ∈ r, k.length = 32) ∧ m.cc.length = 32
def wfClsag (c : Clsag) : Prop := (∀ k ∈ c.s, k.length = 32) ∧ c.c1.length = 32 ∧ c.D.length = 32
def wfPrunable (p : Prunable) : Prop :=
  (∀ r ∈ p.rangeSigs, r.length = 6176) ∧ (∀ x ∈ p.bps, wfBP x) ∧ (∀ x ∈ p.bpps, wfBPP x) ∧ (∀ m ∈ p.mgs, wfMG m) ∧
  (∀ c ∈ p.clsags, wfClsag c) ∧ (∀ k ∈ p.pseudo, k.length = 32)
def wfTx (t : Tx) : Prop :=
  wfPrefix t.pre ∧ (∀ r ∈ t.sigs, ∀ s ∈ r, s.length = 64) ∧ (∀ b, t.base = some b → wfBase b) ∧
  (∀ p, t.prun = some p → wfPrunable p)
def wfHeader (h : Header) : Prop :=
  h.major < U64 ∧ h.minor < U64 ∧ h.timestamp < U64 ∧ h.prev.length = 32 ∧ h.nonce < U32
def wfBlock (b : Block) : Prop := wfHeader b.hdr ∧ wfTx b.miner ∧ (∀ h ∈ b.hashes, h.length = 32)

/-! ## `PublicKey`, `SubField`, `ExtraField` (key.rs:268, transaction.rs:288-362) — derived impls, no attribute but `crate`

`PublicKey { point: CompressedEdwardsY }`: curve25519-dalek writes the point as a tuple of 32 `u8` (a JSON array) and reads it
with `deserialize_tuple(32, …)` — exactly 32 numbers, NO check that the bytes are a curve point (unlike `from_slice`).
`SubField` has newtype variants (`{"Padding":5}`: the content is the payload itself) and a tuple variant
(`{"MergeMining":[depth,[32 numbers]]}`: an array of exactly two); `ExtraField(Vec<SubField>)` is a newtype struct, i.e. its
content. Values are those of `Model/Extra.lean` (`Monero.Extra.SubField`). -/

def publicKeyJ (k : Bytes) : Json := .obj [("point", bytesJ k)]
def publicKeyFromJson (j : Json) : Option Bytes :=
  match fieldsOf ["point"] 1 j with
  | some [k] => req (readBytesN 32) k
  | _ => none

def subFieldNames : List String :=
  ["TxPublicKey", "Nonce", "Padding", "MergeMining", "AdditionalPublickKey", "MysteriousMinerGate"]

def subFieldJ : Extra.SubField → Json
  | .txPub k => .obj [("TxPublicKey", publicKeyJ k)]
  | .nonce n => .obj [("Nonce", bytesJ n)]
  | .padding n => .obj [("Padding", natJ n)]
  | .mergeMining d h => .obj [("MergeMining", .arr [natJ d, bytesJ h])]
  | .addKeys ks => .obj [("AdditionalPublickKey", listJ publicKeyJ ks)]
  | .minerGate d => .obj [("MysteriousMinerGate", bytesJ d)]
def subFieldFromJson : Json → Option Extra.SubField
  | .obj [(tag, c)] =>
    if tag = "TxPublicKey" then (publicKeyFromJson c).map .txPub
    else if tag = "Nonce" then (readByteVec c).map .nonce
    else if tag = "Padding" then (readUInt 256 c).map .padding
    else if tag = "MergeMining" then
      match c with
      | .arr [d, h] =>
        match readUInt U64 d, readBytesN 32 h with
        | some d, some h => some (.mergeMining d h)
        | _, _ => none
      | _ => none
    else if tag = "AdditionalPublickKey" then (readVec publicKeyFromJson c).map .addKeys
    else if tag = "MysteriousMinerGate" then (readByteVec c).map .minerGate
    else none
  | _ => none

/-- `ExtraField(pub Vec<SubField>)` -/
def extraFieldJ (fs : List Extra.SubField) : Json := listJ subFieldJ fs
def extraFieldFromJson : Json → Option (List Extra.SubField) := readVec subFieldFromJson

/-- the values of the Rust type `SubField`: `PublicKey` = 32 bytes (any), `Padding(u8)`, `VarInt(u64)`, `Hash` = 32 bytes -/
def wfSubField : Extra.SubField → Prop
  | .txPub k => k.length = 32
  | .nonce _ => True
  | .padding n => n < 256
  | .mergeMining d h => d < U64 ∧ h.length = 32
  | .addKeys ks => ∀ k ∈ ks, k.length = 32
  | .minerGate _ => True

/-! ## `amount::serde` — `as_pico` / `as_xmr`, each plain, `opt`, `slice` + `vec`

Amounts are integers (`Amount` = u64, `SignedAmount` = i64, chosen by `signed`), as in `Model/AmountText.lean`. -/

inductive AmtEnc | pico | xmr deriving DecidableEq, Repr

/-- `ser_pico` (`u64::serialize` / `i64::serialize`) and `ser_xmr` (`String::serialize(&to_string_in(Monero))`); the
`_opt` (`serialize_some`) and `_slice` (`serialize_element`) writers emit the same value -/
def amtJ (signed : Bool) : AmtEnc → Int → Json
  | .pico, a => .num a
  | .xmr, a => .str (AmtText.toStringIn signed a .Monero)
/-- `des_pico` / `des_xmr` (`from_str_in(&String::deserialize(d)?, Monero)`) -/
def amtFromJson (signed : Bool) : AmtEnc → Json → Option Int
  | .pico, j => if signed then readI64 j else (readUInt U64 j).map Int.ofNat
  | .xmr, j =>
    match readString j with
    | none => none
    | some s => (AmtText.fromStrIn signed s .Monero).toOption

/-- `opt::serialize`: `None` → `serialize_none` -/
def amtOptJ (signed : Bool) (e : AmtEnc) : Option Int → Json
  | none => .null
  | some a => amtJ signed e a
/-- `opt::deserialize`: `deserialize_option` with `visit_none` / `visit_some(des_…)` -/
def amtOptFromJson (signed : Bool) (e : AmtEnc) : Json → Option (Option Int) := readOption (amtFromJson signed e)

/-- `slice::serialize` -/
def amtVecJ (signed : Bool) (e : AmtEnc) (xs : List Int) : Json := .arr (xs.map (amtJ signed e))
/-- one element of `vec::deserialize_[signed_]amount`: `next_element::<u64|i64>()` resp. `next_element::<String>()`
followed by `from_str_in(&amt, Monero)` — an OWNED string, i.e. exactly the reader of a single amount -/
def amtElemFromJson (signed : Bool) (e : AmtEnc) (j : Json) : Option Int := amtFromJson signed e j
def amtVecFromJson (signed : Bool) (e : AmtEnc) : Json → Option (List Int)
  | .arr xs => mapOpt (amtElemFromJson signed e) xs
  | _ => none

/-- the usage documented in amount.rs: `struct HasAmount { #[serde(with = "…::as_xmr")] amount: Amount }` -/
def hasAmountJ (signed : Bool) (e : AmtEnc) (a : Int) : Json := .obj [("amount", amtJ signed e a)]
def hasAmountFromJson (signed : Bool) (e : AmtEnc) (j : Json) : Option Int :=
  match fieldsOf ["amount"] 1 j with
  | some [a] => req (amtFromJson signed e) a
  | _ => none
/-- `#[serde(default, with = "…::opt")] amount: Option<Amount>` -/
def hasOptAmountJ (signed : Bool) (e : AmtEnc) (a : Option Int) : Json := .obj [("amount", amtOptJ signed e a)]
def hasOptAmountFromJson (signed : Bool) (e : AmtEnc) (j : Json) : Option (Option Int) :=
  match fieldsOf ["amount"] 0 j with
  | some [none] => some none
  | some [some a] => amtOptFromJson signed e a
  | _ => none
/-- `#[serde(default, serialize_with = "…::slice::serialize", deserialize_with = "…::vec::deserialize_amount")] amounts: Vec<Amount>` -/
def hasAmountsJ (signed : Bool) (e : AmtEnc) (a : List Int) : Json := .obj [("amounts", amtVecJ signed e a)]
def hasAmountsFromJson (signed : Bool) (e : AmtEnc) (j : Json) : Option (List Int) :=
  match fieldsOf ["amounts"] 0 j with
  | some [none] => some []
  | some [some a] => amtVecFromJson signed e a
  | _ => none

/-- the amounts of the Rust type: `Amount` = u64, `SignedAmount` = i64 -/
def InRange (signed : Bool) (a : Int) : Prop :=
  if signed then -(2 ^ 63 : Int) ≤ a ∧ a < 2 ^ 63 else 0 ≤ a ∧ a < 2 ^ 64
/-- the amounts a monero-denominated string can carry back: magnitude at most `2^63 − 1` (the parsing limit of C15) -/
def Small (a : Int) : Prop := a.natAbs ≤ 2 ^ 63 - 1
/-- the condition under which one amount survives the round trip in encoding `e` -/
def Carried (e : AmtEnc) (a : Int) : Prop := e = .pico ∨ Small a

/-! ## `Address` (address.rs `mod serde_impl`) -/

/-- `serializer.serialize_str(&self.to_string())`; `none` only if `Display` failed (it never does, see C12) -/
def addrJ (H : Bytes → Bytes) (a : Address) : Option Json := (Address.toStr H a).map .str
/-- `Address::from_str(&String::deserialize(d)?)` -/
def addrFromJson (H : Bytes → Bytes) (validKey : Bytes → Bool) (j : Json) : Option Address :=
  match readString j with
  | none => none
  | some s => Address.fromStr H validKey s

/-! ## serde_json's compact printer (`to_string`) and a parser (`from_str`) — trusted components, modelled only so that
the driver can compare texts; no theorem is stated about them -/

def hexDigit (n : Nat) : UInt8 := UInt8.ofNat (if n < 10 then 48 + n else 87 + n)
/-- `format_escaped_str_contents`: `"` `\` and the control characters below 0x20 are escaped, everything else is raw -/
def escByte (c : UInt8) : Bytes :=
  if c = 0x22 then [0x5c, 0x22] else if c = 0x5c then [0x5c, 0x5c]
  else if c = 0x08 then [0x5c, 0x62] else if c = 0x0c then [0x5c, 0x66] else if c = 0x0a then [0x5c, 0x6e]
  else if c = 0x0d then [0x5c, 0x72] else if c = 0x09 then [0x5c, 0x74]
  else if c.toNat < 0x20 then [0x5c, 0x75, 0x30, 0x30, hexDigit (c.toNat / 16), hexDigit (c.toNat % 16)]
  else [c]
def renderStr (s : Bytes) : Bytes := [0x22] ++ (s.map escByte).flatten ++ [0x22]
def renderInt (n : Int) : Bytes := ascii (toString n)

mutual
def render : Json → Bytes
  | .null => ascii "null"
  | .bool b => if b then ascii "true" else ascii "false"
  | .num n => renderInt n
  | .flt => ascii "0.5"
  | .str s => renderStr s
  | .strEsc s => renderStr s
  | .arr xs => [0x5b] ++ renderElems xs ++ [0x5d]
  | .obj kvs => [0x7b] ++ renderMembers kvs ++ [0x7d]
def renderElems : List Json → Bytes
  | [] => []
  | [x] => render x
  | x :: y :: r => render x ++ [0x2c] ++ renderElems (y :: r)
def renderMembers : List (String × Json) → Bytes
  | [] => []
  | [(k, v)] => renderStr k.toUTF8.toList ++ [0x3a] ++ render v
  | (k, v) :: y :: r => renderStr k.toUTF8.toList ++ [0x3a] ++ render v ++ [0x2c] ++ renderMembers (y :: r)
end

def isWs (c : UInt8) : Bool := c = 0x20 || c = 0x0a || c = 0x0d || c = 0x09
def skipWs : Bytes → Bytes
  | [] => []
  | c :: r => if isWs c then skipWs r else c :: r
def isDig (c : UInt8) : Bool := 0x30 ≤ c.toNat && c.toNat ≤ 0x39
def takeDigits : Bytes → Bytes × Bytes
  | [] => ([], [])
  | c :: r => if isDig c then let (d, t) := takeDigits r; (c :: d, t) else ([], c :: r)
def natOfDigits (ds : Bytes) : Nat := ds.foldl (fun a c => 10 * a + (c.toNat - 48)) 0

/-- a number: `-? (0 | [1-9][0-9]*) (. [0-9]+)? ([eE] [+-]? [0-9]+)?` -/
def parseNumber (b : Bytes) : Option (Json × Bytes) :=
  let (neg, b1) := match b with | 0x2d :: r => (true, r) | _ => (false, b)
  let (ip, b2) := takeDigits b1
  if ip = [] then none
  else if ip.length > 1 ∧ ip.head? = some 0x30 then none
  else
    let fr : Option (Bool × Bytes) :=
      match b2 with
      | 0x2e :: r => let (fp, t) := takeDigits r; if fp = [] then none else some (true, t)
      | _ => some (false, b2)
    match fr with
    | none => none
    | some (hasFrac, b3) =>
      let ex : Option (Bool × Bytes) :=
        match b3 with
        | c :: r =>
          if c = 0x65 ∨ c = 0x45 then
            let r' := match r with | s :: t => if s = 0x2b ∨ s = 0x2d then t else r | [] => r
            let (ed, t) := takeDigits r'
            if ed = [] then none else some (true, t)
          else some (false, b3)
        | [] => some (false, b3)
      match ex with
      | none => none
      | some (hasExp, b4) =>
        if hasFrac ∨ hasExp then some (.flt, b4)
        else
          let n := natOfDigits ip
          if neg then (if n = 0 ∨ n > 2^63 then some (.flt, b4) else some (.num (-(n : Int)), b4))
          else (if n < 2^64 then some (.num n, b4) else some (.flt, b4))

def hexVal (c : UInt8) : Option Nat :=
  if 48 ≤ c.toNat ∧ c.toNat ≤ 57 then some (c.toNat - 48)
  else if 97 ≤ c.toNat ∧ c.toNat ≤ 102 then some (c.toNat - 87)
  else if 65 ≤ c.toNat ∧ c.toNat ≤ 70 then some (c.toNat - 55)
  else none
def hex4 : Bytes → Option (Nat × Bytes)
  | a :: b :: c :: d :: r =>
    match hexVal a, hexVal b, hexVal c, hexVal d with
    | some a, some b, some c, some d => some (((a * 16 + b) * 16 + c) * 16 + d, r)
    | _, _, _, _ => none
  | _ => none
def utf8 (n : Nat) : Bytes :=
  if n < 0x80 then [UInt8.ofNat n]
  else if n < 0x800 then [UInt8.ofNat (0xc0 + n / 64), UInt8.ofNat (0x80 + n % 64)]
  else if n < 0x10000 then [UInt8.ofNat (0xe0 + n / 4096), UInt8.ofNat (0x80 + n / 64 % 64), UInt8.ofNat (0x80 + n % 64)]
  else [UInt8.ofNat (0xf0 + n / 262144), UInt8.ofNat (0x80 + n / 4096 % 64), UInt8.ofNat (0x80 + n / 64 % 64), UInt8.ofNat (0x80 + n % 64)]

/-- the characters after an opening `"` up to the closing one; returns the unescaped bytes and whether an escape occurred -/
def parseStrBody : Nat → Bytes → Bytes → Bool → Option (Bytes × Bool × Bytes)
  | 0, _, _, _ => none
  | _, [], _, _ => none
  | f+1, c :: r, acc, esc =>
    if c = 0x22 then some (acc.reverse, esc, r)
    else if c.toNat < 0x20 then none
    else if c = 0x5c then
      match r with
      | [] => none
      | e :: r2 =>
        let simple (x : UInt8) := parseStrBody f r2 (x :: acc) true
        if e = 0x22 then simple 0x22 else if e = 0x5c then simple 0x5c else if e = 0x2f then simple 0x2f
        else if e = 0x62 then simple 0x08 else if e = 0x66 then simple 0x0c else if e = 0x6e then simple 0x0a
        else if e = 0x72 then simple 0x0d else if e = 0x74 then simple 0x09
        else if e = 0x75 then
          match hex4 r2 with
          | none => none
          | some (n, r3) =>
            if 0xdc00 ≤ n ∧ n ≤ 0xdfff then none
            else if 0xd800 ≤ n ∧ n ≤ 0xdbff then
              match r3 with
              | 0x5c :: 0x75 :: r4 =>
                match hex4 r4 with
                | none => none
                | some (m, r5) =>
                  if 0xdc00 ≤ m ∧ m ≤ 0xdfff then
                    parseStrBody f r5 ((utf8 (0x10000 + (n - 0xd800) * 1024 + (m - 0xdc00))).reverse ++ acc) true
                  else none
              | _ => none
            else parseStrBody f r3 ((utf8 n).reverse ++ acc) true
        else none
    else parseStrBody f r (c :: acc) esc

def stripLit (lit : Bytes) (b : Bytes) : Option Bytes := if b.take lit.length = lit then some (b.drop lit.length) else none

mutual
def pValue : Nat → Bytes → Option (Json × Bytes)
  | 0, _ => none
  | f+1, b =>
    match skipWs b with
    | [] => none
    | c :: r =>
      if c = 0x6e then (stripLit (ascii "ull") r).map fun t => (.null, t)
      else if c = 0x74 then (stripLit (ascii "rue") r).map fun t => (.bool true, t)
      else if c = 0x66 then (stripLit (ascii "alse") r).map fun t => (.bool false, t)
      else if c = 0x22 then
        match parseStrBody (r.length + 1) r [] false with
        | none => none
        | some (s, esc, t) => some (if esc then .strEsc s else .str s, t)
      else if c = 0x5b then
        match skipWs r with
        | 0x5d :: t => some (.arr [], t)
        | _ => pElems f r []
      else if c = 0x7b then
        match skipWs r with
        | 0x7d :: t => some (.obj [], t)
        | _ => pMembers f r []
      else if c = 0x2d ∨ isDig c then parseNumber (c :: r)
      else none
def pElems : Nat → Bytes → List Json → Option (Json × Bytes)
  | 0, _, _ => none
  | f+1, b, acc =>
    match pValue f b with
    | none => none
    | some (v, r) =>
      match skipWs r with
      | c :: t => if c = 0x2c then pElems f t (v :: acc) else if c = 0x5d then some (.arr (v :: acc).reverse, t) else none
      | [] => none
def pMembers : Nat → Bytes → List (String × Json) → Option (Json × Bytes)
  | 0, _, _ => none
  | f+1, b, acc =>
    match skipWs b with
    | c :: r =>
      if c = 0x22 then
        match parseStrBody (r.length + 1) r [] false with
        | none => none
        | some (k, _, r1) =>
          match String.fromUTF8? ⟨k.toArray⟩ with
          | none => none
          | some ks =>
            match skipWs r1 with
            | c2 :: r2 =>
              if c2 = 0x3a then
                match pValue f r2 with
                | none => none
                | some (v, r3) =>
                  match skipWs r3 with
                  | c3 :: t =>
                    if c3 = 0x2c then pMembers f t ((ks, v) :: acc)
                    else if c3 = 0x7d then some (.obj ((ks, v) :: acc).reverse, t) else none
                  | [] => none
              else none
            | [] => none
      else none
    | [] => none
end

/-- `serde_json::from_str` up to the typed visitor: the whole text is one value surrounded by white space -/
def parse (b : Bytes) : Option Json :=
  match pValue (2 * b.length + 4) b with
  | some (j, r) => if skipWs r = [] then some j else none
  | none => none

/-- what a non-borrowing deserialiser (`serde_json::from_reader`, `from_value`) sees: every string is owned -/
def owned : Nat → Json → Json
  | 0, j => j
  | _, .str s => .strEsc s
  | f+1, .arr xs => .arr (xs.map (owned f))
  | f+1, .obj kvs => .obj (kvs.map fun kv => (kv.1, owned f kv.2))
  | _, j => j

end Json
end Monero
