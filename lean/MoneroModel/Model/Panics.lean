import MoneroModel.Model.Address
import MoneroModel.Model.AmountText
import MoneroModel.Model.Extra
import MoneroModel.Gen.Arith
/-! # Panic-explicit models (C04)

The models of C12 / C15 / C16 / C01 are written over `List`, `Nat` and `Int`, where `take`, `drop`, `-` and `+` are
total. The Rust code is not: `&bytes[a..b]`, `bytes[0]`, `&s[1..]` on a `str`, `s.len() - last_n` on `usize`,
`i += 1` on a `u8`, `d + 1` on an `i32` panic (in the checked profile the harness builds) when an index is out of range,
a `str` index is not a character boundary, or the arithmetic leaves the machine type.

This file re-states those functions with every such construct EXPLICIT: a result is `Out α = ok x | err | panic site`.
`Proofs/PanicsProofs.lean` proves, for every input, (1) no `panic` outcome is reachable — each site is guarded by the
checks that precede it in the source — and (2) the panic-explicit function computes exactly what the total model
computes, so the correspondence established for the total models carries over. The slice bounds of
`AddressType::from_slice` are read from the table REGENERATED from the source (`Gen.addrType`: minimum length and
payment-id range per tag), so weakening a length guard in the source refutes `C04_no_panic_address`. Core Lean only. -/
namespace Monero.Panics

/-- outcome of a Rust call: `Ok(x)`, `Err(_)`, or a panic at a named site -/
inductive Out (α : Type) where
  | ok (x : α)
  | err
  | panic (site : String)
  deriving Repr

namespace Out
@[inline] def bind {α β} (o : Out α) (f : α → Out β) : Out β :=
  match o with
  | ok x => f x
  | err => err
  | panic s => panic s
def toOption {α} : Out α → Option α
  | ok x => some x
  | _ => none
def isPanic {α} : Out α → Bool
  | panic _ => true
  | _ => false
/-- `Result` without the error kind -/
def ofExcept {ε α} : Except ε α → Option α
  | .ok x => some x
  | .error _ => none
end Out

/-- `&b[lo..hi]` on a byte slice: panics unless `lo ≤ hi ≤ b.len()` -/
def slice (site : String) (b : Bytes) (lo hi : Nat) : Out Bytes :=
  if lo ≤ hi ∧ hi ≤ b.length then .ok ((b.drop lo).take (hi - lo)) else .panic site
/-- `b[i]`: panics unless `i < b.len()` -/
def idx (site : String) (b : Bytes) (i : Nat) : Out UInt8 :=
  match b[i]? with
  | some x => .ok x
  | none => .panic site
/-- checked-profile unsigned subtraction (`usize`, `u8`): panics on underflow -/
def subU (site : String) (a b : Nat) : Out Nat := if b ≤ a then .ok (a - b) else .panic site
/-- checked-profile unsigned addition on `bits` bits: panics on overflow -/
def addU (bits : Nat) (site : String) (a b : Nat) : Out Nat := if a + b < 2 ^ bits then .ok (a + b) else .panic site
/-- checked-profile `i32` results: panics outside `[-2^31, 2^31)` -/
def i32 (site : String) (x : Int) : Out Int := if -(2 : Int) ^ 31 ≤ x ∧ x < (2 : Int) ^ 31 then .ok x else .panic site

/-! ## `AddressType::from_slice` and `Address::from_bytes` (src/util/address.rs) -/

/-- `AddressType::from_slice` with `bytes[0]`, `&bytes[65..73]` and the length assertion of `PaymentId::from_slice` explicit
(bounds from the regenerated table) -/
def addrTypeOfP (net : Net) (bytes : Bytes) : Out (Kind × Bytes) :=
  if bytes.isEmpty then .err else
  (idx "AddressType::from_slice: bytes[0]" bytes 0).bind fun b =>
  match addrArm net b.toNat with
  | none => .err
  | some (k, minLen, lo, hi) =>
    if bytes.length < minLen then .err
    else (slice "AddressType::from_slice: &bytes[65..73]" bytes lo hi).bind fun pid =>
      -- `PaymentId::from_slice(&bytes[65..73])` in the Integrated arms: fixed-hash `assert_eq!(src.len(), 8)` — the LENGTH of the
      -- regenerated range is a panic site of its own (`&bytes[65..72]` is a legal slice and a panicking payment id)
      if k = .Integrated ∧ pid.length ≠ 8 then .panic "PaymentId::from_slice: assert_eq!(src.len(), 8)" else .ok (k, pid)

/-- `Address::from_bytes` with its eight index / slice expressions explicit (`bytes[0]`, `&bytes[1..33]`, `&bytes[33..65]`,
`&bytes[0..65]`, `&bytes[65..69]`, `&bytes[0..73]`, `&bytes[73..77]`, `&verify_checksum[0..4]`; two more, `bytes[0]` and the
payment-id slice, are in `addrTypeOfP`); `H` = `keccak_256` (a 32-byte array in the
library; the theorem asks for at least 4 bytes) -/
def fromBytesP (H : Bytes → Bytes) (validKey : Bytes → Bool) (bytes : Bytes) : Out Address :=
  if bytes.isEmpty || bytes.length < 65 then .err else
  (idx "Address::from_bytes: bytes[0]" bytes 0).bind fun b0 =>
  match fromU8 b0.toNat with
  | none => .err
  | some network =>
    (addrTypeOfP network bytes).bind fun (kind, pid) =>
    (slice "Address::from_bytes: &bytes[1..33]" bytes 1 33).bind fun publicSpend =>
    if !validKey publicSpend then .err else
    (slice "Address::from_bytes: &bytes[33..65]" bytes 33 65).bind fun publicView =>
    if !validKey publicView then .err else
    let split : Out (Bytes × Bytes) :=
      match kind with
      | .Integrated =>
        if bytes.length != 77 then .err
        else (slice "Address::from_bytes: &bytes[0..73]" bytes 0 73).bind fun cb =>
             (slice "Address::from_bytes: &bytes[73..77]" bytes 73 77).bind fun c => .ok (cb, c)
      | _ =>
        if bytes.length != 69 then .err
        else (slice "Address::from_bytes: &bytes[0..65]" bytes 0 65).bind fun cb =>
             (slice "Address::from_bytes: &bytes[65..69]" bytes 65 69).bind fun c => .ok (cb, c)
    split.bind fun (checksumBytes, checksum) =>
    (slice "Address::from_bytes: &verify_checksum[0..4]" (H checksumBytes) 0 4).bind fun v =>
    if v != checksum then .err else .ok ⟨network, kind, pid, publicSpend, publicView⟩

/-! ## `parse_signed_to_piconero` (src/util/amount.rs:118-192) -/
open AmtText

/-- UTF-8 continuation byte `10xxxxxx` -/
def isCont (c : UInt8) : Bool := 0x80 ≤ c.toNat && c.toNat < 0xC0
/-- `str::is_char_boundary` -/
def isBoundary (s : Bytes) (i : Nat) : Bool :=
  i == 0 || i == s.length || (match s[i]? with | some c => !isCont c | none => false)
/-- `&s[lo..hi]` on a `str`: panics unless `lo ≤ hi ≤ s.len()` and both ends are character boundaries -/
def strSlice (site : String) (s : Bytes) (lo hi : Nat) : Out Bytes :=
  if lo ≤ hi ∧ hi ≤ s.length ∧ isBoundary s lo = true ∧ isBoundary s hi = true then .ok ((s.drop lo).take (hi - lo))
  else .panic site

/-- what the proofs need of "`s` is a `&str`": a sequence of characters, each one ASCII byte or a lead byte (≥ 0xC0)
followed by one to three continuation bytes -/
inductive Utf8 : Bytes → Prop
  | nil : Utf8 []
  | ascii (c : UInt8) (r : Bytes) : c.toNat < 0x80 → Utf8 r → Utf8 (c :: r)
  | multi (l : UInt8) (cs r : Bytes) : 0xC0 ≤ l.toNat → 1 ≤ cs.length → cs.length ≤ 3 → (∀ c ∈ cs, isCont c = true) →
      Utf8 r → Utf8 (l :: (cs ++ r))

/-- the digit loop with `c as u8 - b'0'` (u8) and `d + 1` (i32) explicit -/
def parseLoopP : Bytes → Nat → Option Nat → Nat → Out (Nat × Option Nat)
  | [], v, d, _ => .ok (v, d)
  | c :: cs, v, d, md =>
    if isDigit c then
      if 10 * v > U64MAX then .err
      else (subU "parse_signed_to_piconero: c as u8 - b'0'" c.toNat 0x30).bind fun dig =>
        if 10 * v + dig > U64MAX then .err
        else
          match d with
          | none => parseLoopP cs (10 * v + dig) none md
          | some k =>
            if k < md then
              (i32 "parse_signed_to_piconero: d + 1" ((k : Int) + 1)).bind fun k1 => parseLoopP cs (10 * v + dig) (some k1.toNat) md
            else .err
    else if c.toNat = 0x2e then
      match d with
      | none => parseLoopP cs v (some 0) md
      | some _ => .err
    else .err

/-- the `max_decimals` block with `-denom.precision()` (i32), `s.len() - last_n` (usize) and `&s[0..n]` explicit -/
def maxDecimalsP (s : Bytes) (d : Denom) : Out (Bytes × Nat) :=
  (i32 "parse_signed_to_piconero: -denom.precision()" (-(precisionOf d))).bind fun precisionDiff =>
  if precisionDiff < 0 then
    let lastN := precisionDiff.natAbs
    if isTooPrecise s lastN then .err
    else (subU "parse_signed_to_piconero: s.len() - last_n" s.length lastN).bind fun n =>
         (strSlice "parse_signed_to_piconero: &s[0..s.len() - last_n]" s 0 n).bind fun s' => .ok (s', 0)
  else .ok (s, precisionDiff.toNat)

/-- `parse_signed_to_piconero` with `&s[1..]` and `max_decimals - decimals.unwrap_or(0)` (i32) explicit -/
def parseSignedToPiconeroP (s : Bytes) (d : Denom) : Out (Bool × Nat) :=
  if s = [] then .err
  else if s.length > 50 then .err
  else
    let neg := s.head? = some 0x2d
    if neg ∧ s.length = 1 then .err
    else
      (if neg then strSlice "parse_signed_to_piconero: &s[1..]" s 1 s.length else .ok s).bind fun s1 =>
      (maxDecimalsP s1 d).bind fun (s2, md) =>
      (parseLoopP s2 0 none md).bind fun (v, dec) =>
      (i32 "parse_signed_to_piconero: max_decimals - decimals" ((md : Int) - (dec.getD 0 : Nat))).bind fun sf =>
      match rescale sf.toNat v with
      | .error _ => .err
      | .ok q => .ok (neg, q)

/-! ## the padding loop of `SubField::consensus_decode` (transaction.rs:826-843): `i += 1` on a `u8` -/
open Extra in
def padLoopP : Nat → Nat → Extra.Rd (Out Extra.SubField)
  | 0, i => Extra.rpure (.ok (.padding i))
  | fuel+1, i => fun b =>
    match b with
    | [] => (some (.ok (.padding i)), [])
    | x :: xs =>
      if x ≠ 0 then (some .err, xs)
      else match addU 8 "SubField::consensus_decode: i += 1" i 1 with
        | .ok i' => padLoopP fuel i' xs
        | .err => (some .err, xs)
        | .panic s => (some (.panic s), xs)

/-! ## `VarInt::consensus_decode` (encode.rs:354-384): ONE panic site, `res.split_last().unwrap()`, which needs a non-empty group
list. The shift `int << 7` is NOT a panic site: a shift by a constant below the bit width never panics, also in a checked build —
bits shifted out of the `u64` are silently lost. It is modelled as what it is, a wrapping shift (`% 2^64`); that no set bit is
lost (the shift happens only after `leading_zeros() >= 7`, i.e. `int < 2^57`) is part of the VALUE claim `accumP = accum`. -/
def accumP : List Nat → Nat → Out Nat
  | [], _ => .panic "VarInt::consensus_decode: res.split_last().unwrap()"
  | [last], int => .ok (int + last)
  | g :: g' :: rest, int =>
    if int + g < 2 ^ 57 then accumP (g' :: rest) ((int + g) * 128 % 2 ^ 64)   -- `int << 7` on a u64: wraps, never panics
    else .err

/-! ## ring size in `Transaction::consensus_decode` (transaction.rs:1038-1054): `&prefix.inputs[0]` -/
def mixinP (ins : List TxIn) : Out Nat :=
  if ins.length = 0 then .ok 0     -- the `inputs == 0` early return happens before
  else match (ins[0]? : Option TxIn) with
    | none => .panic "Transaction::consensus_decode: &prefix.inputs[0]"
    | some (.toKey _ o _) => if o.length = 0 then .err else .ok (o.length - 1)   -- checked_sub(1)
    | some _ => .ok 0

/-! ## `RctSigPrunable::consensus_decode` (ringct.rs:712-807) and `Transaction::consensus_decode`
(transaction.rs:995-1077): the MLSAG column count `inputs + 1` on a `usize`, `&prefix.inputs[0]`

The decoders of Model/Tx.lean compute over `Nat`, where `1 + inputs` is total. In the Rust, `inputs` is a `usize`
PARAMETER of the public function `RctSigPrunable::consensus_decode`; the sum is evaluated inside
`for _ in 0..mg_elements { for _ in 0..=mixin {` — for the types that are neither CLSAG-like (5, 6) nor simple (2, 3, 4)
`mg_elements = 1` and `0..=mixin` is never empty, so it is evaluated (before any byte of the section is read) exactly
for those types. `Transaction::consensus_decode` calls it with `inputs = prefix.inputs.len()`, the length of a vector
that passed the allocation cap. -/

/-- `Option` result as an outcome without panic -/
def Out.ofOption {α} : Option α → Out α
  | some x => .ok x
  | none => .err

/-- `usize::saturating_add` on `bits` bits -/
def satAddU (bits a b : Nat) : Nat := min (a + b) (2 ^ bits - 1)

/-- the MLSAG column count `inputs + 1` as a source computes it: `plain = true` is the bare `1 + inputs` on a `usize` (overflow
panics in a checked build); otherwise the std method `op` of `usize` evaluated with its documented semantics (`StdOp.eval`;
`None` of a checked form would be an `Err` return); a source in which the site is not recognised is treated as panicking, so
that the no-panic theorem cannot be proved about a source the model does not describe -/
def mgColsWith (plain : Bool) (op : Option StdOp) (inputs : Nat) : Out Nat :=
  if plain then addU 64 "RctSigPrunable::consensus_decode: 1 + inputs" 1 inputs
  else match op with
    | none => .panic "RctSigPrunable::consensus_decode: MLSAG column count computed in an unrecognised way"
    | some o =>
      match StdOp.eval TyU64 o (inputs : Int) 1 with   -- usize = u64 on the 64-bit targets the harness builds for
      | some v => .ok v.toNat
      | none => .err

/-- section 2 (ring signatures) with the machine arithmetic of the column count explicit, the operator being a PARAMETER -/
def sigsDecPW (plain : Bool) (op : Option StdOp) (ty inputs mixin : Nat) (b : Bytes) : Out ((List MG × List Clsag) × Bytes) :=
  if ty = 5 ∨ ty = 6 then .ofOption (sigsDec ty inputs mixin b)
  else if ty = 2 ∨ ty = 3 ∨ ty = 4 then .ofOption (sigsDec ty inputs mixin b)
  else
    (mgColsWith plain op inputs).bind fun cols =>
    .ofOption ((bind (rep (mgDec cols mixin) 1) fun ms => pure' (ms, ([] : List Clsag))) b)

/-- `RctSigPrunable::consensus_decode(r, rct_type, inputs, outputs, mixin)`: every argument is the caller's -/
def prunablePW (plain : Bool) (op : Option StdOp) (ty inputs outputs mixin : Nat) (b : Bytes) : Out (Option Prunable × Bytes) :=
  if ty = 0 then .ok (none, b) else
  (Out.ofOption (proofsDec ty outputs b)).bind fun (pf, r1) =>
  (sigsDecPW plain op ty inputs mixin r1).bind fun (sg, r2) =>
  (Out.ofOption (pseudoDec ty inputs r2)).bind fun (po, r3) =>
  .ok (some ⟨pf.1, pf.2.1, pf.2.2, sg.1, sg.2, po⟩, r3)

/-- … with the operator READ FROM THE SOURCE on every run (`Gen.mgColsOp`, `Gen.mgColsPlain`, regenerated by the translator from
`let mg_ss2_elements = if is_simple_or_bp { 2 } else { … }`): since the fix commit "fix: RctSigPrunable::consensus_decode
computes the MLSAG column count with saturating_add" it is `inputs.saturating_add(1)` (it was `1 + inputs`, which overflowed — a
panic in checked builds — for `inputs = usize::MAX`) -/
def sigsDecP (ty inputs mixin : Nat) (b : Bytes) : Out ((List MG × List Clsag) × Bytes) :=
  sigsDecPW Gen.mgColsPlain Gen.mgColsOp ty inputs mixin b
def prunableP (ty inputs outputs mixin : Nat) (b : Bytes) : Out (Option Prunable × Bytes) :=
  prunablePW Gen.mgColsPlain Gen.mgColsOp ty inputs outputs mixin b

/-- the expression `match &prefix.inputs[0] { ToKey{key_offsets,..} => key_offsets.len().checked_sub(1) …, _ => 0 }`
ALONE, without the guards that precede it in the source: it panics on an empty input list -/
def mixinAtP (ins : List TxIn) : Out Nat :=
  match (ins[0]? : Option TxIn) with
  | none => .panic "Transaction::consensus_decode: &prefix.inputs[0]"
  | some (.toKey _ o _) => if o.length = 0 then .err else .ok (o.length - 1)   -- checked_sub(1)
  | some _ => .ok 0

/-- `Transaction::consensus_decode` with its own control flow written out (the `inputs == 0` early return, the
`if inputs > 0 { … } else { 0 }` around the index expression) and the panic sites of what it calls -/
def txP (b : Bytes) : Out (Tx × Bytes) :=
  (Out.ofOption (prefix' b)).bind fun (p, r0) =>
  let inputs := p.ins.length
  let outputs := p.outs.length
  if p.version = 1 then
    let rings := p.ins.filterMap fun i => match i with | .toKey _ o _ => some o.length | _ => none
    .ofOption ((bind (tx.sigs rings) fun s => pure' (⟨p, s, none, none⟩ : Tx)) r0)
  else if inputs = 0 then .ok (⟨p, [], none, none⟩, r0)
  else
    (Out.ofOption (base inputs outputs r0)).bind fun (bs, r1) =>
    if bs.ty ≠ 0 then
      (if inputs > 0 then mixinAtP p.ins else .ok 0).bind fun mixin =>
      (prunableP bs.ty inputs outputs mixin r1).bind fun (pr, r2) => .ok (⟨p, [], some bs, pr⟩, r2)
    else .ok (⟨p, [], some bs, none⟩, r1)

/-! ## formatting and signed parsing of amounts (src/util/amount.rs): `fmt_piconero_in` (`real.len() - nb_decimals` on
`usize`, three `str` slices of the zero-padded numeral), `SignedAmount::fmt_value_in` (`u64::MAX - x + 1` for `i64::MIN`),
`SignedAmount::from_str_in` (`-(piconero as i64)`) -/

/-- checked-profile `i64` negation: panics for `i64::MIN` only -/
def negI64 (site : String) (x : Int) : Out Int := if x = -(2 : Int) ^ 63 then .panic site else .ok (-x)

/-- `fmt_piconero_in` (amount.rs:195-229). `precision as usize` (a cast: wraps, never panics) is taken in the `Greater`
arm only, where the value is positive. -/
def fmtPiconeroInP (piconero : Nat) (negative : Bool) (d : Denom) : Out Bytes :=
  let sign : Bytes := if negative then [0x2d] else []
  let precision := precisionOf d
  if precision > 0 then
    .ok (sign ++ digits piconero ++ padZero precision.toNat (digits 0))
  else if precision < 0 then
    let nb := precision.natAbs
    let real := padZero nb (digits piconero)
    if real.length = nb then
      (subU "fmt_piconero_in: real.len() - nb_decimals" real.length nb).bind fun k =>
      (strSlice "fmt_piconero_in: &real[real.len() - nb_decimals..]" real k real.length).bind fun frac =>
      .ok (sign ++ [0x30, 0x2e] ++ frac)
    else
      (subU "fmt_piconero_in: real.len() - nb_decimals" real.length nb).bind fun k =>
      (strSlice "fmt_piconero_in: &real[0..(real.len() - nb_decimals)]" real 0 k).bind fun ip =>
      (strSlice "fmt_piconero_in: &real[real.len() - nb_decimals..]" real k real.length).bind fun frac =>
      .ok (sign ++ ip ++ [0x2e] ++ frac)
  else .ok (sign ++ digits piconero)

/-- `SignedAmount::fmt_value_in` / `to_string_in` (`a` is an `i64`): `checked_abs()` is `None` exactly for `i64::MIN`,
then `u64::max_value() - self.as_pico() as u64 + 1` on `u64` -/
def signedToStringInP (a : Int) (d : Denom) : Out Bytes :=
  (if a = -(2 ^ 63 : Int) then
     (subU "SignedAmount::fmt_value_in: u64::MAX - (x as u64)" U64MAX (a % (2 ^ 64 : Int)).toNat).bind fun t =>
     addU 64 "SignedAmount::fmt_value_in: (u64::MAX - x) + 1" t 1
   else .ok a.natAbs).bind fun picos =>
  fmtPiconeroInP picos (decide (a < 0)) d

/-- `x as i64` for a `u64` value `x`: the two's-complement reinterpretation (a cast never panics, it WRAPS): values from
`2^63` on become negative, `2^63` becomes `i64::MIN` -/
def castI64 (q : Nat) : Int :=
  let x : Nat := q % 2 ^ 64
  if x < 2 ^ 63 then (x : Int) else (x : Int) - (2 : Int) ^ 64

/-- `SignedAmount::from_str_in` with the guard as a parameter (`guarded = true` is the Rust function; `false` is the function
with the `if piconero > i64::max_value() as u64 { return Err(TooBig) }` test removed). The operand of the negation is the
WRAPPED cast `piconero as i64`, so without the test the site fires for `piconero = 2^63` (`-(i64::MIN)`). -/
def signedFromStrInG (guarded : Bool) (s : Bytes) (d : Denom) : Out Int :=
  (parseSignedToPiconeroP s d).bind fun (neg, q) =>
  if guarded ∧ q > I64MAX then .err
  else if neg then negI64 "SignedAmount::from_str_in: -(piconero as i64)" (castI64 q) else .ok (castI64 q)

/-- `SignedAmount::from_str_in`: the negation of `piconero as i64` comes after the `> i64::MAX` test -/
def signedFromStrInP (s : Bytes) (d : Denom) : Out Int := signedFromStrInG true s d

end Monero.Panics
