import MoneroModel.Model.Keys
/-! Model of the operator impls of `src/util/key.rs` (l.152-229 `PrivateKey`, l.339-436 `PublicKey`), control flow mirrored,
on the STORED key bytes (`Scalar { bytes }`, `CompressedEdwardsY(bytes)`), i.e. on values of the key types — whether or not
they came through `from_slice`.

* `PublicKey::point()` (l.316-320) re-runs dalek's *permissive* `CompressedEdwardsY::decompress` on the stored bytes and
  `.expect`s the result: `keyPoint` (= `Keys.decompressDalek`), `none` = the `expect` panics.
* `a + b`, `a - b` (all four reference forms have the same body): `self.point() ± other.point()`, then `compress()`.
* `sk * &pk`, `&sk * &pk`, `pk * &sk`: `scalar * point()`, then `compress()`.
* `PublicKey::from_private_key`: `&scalar * ED25519_BASEPOINT_TABLE`, then `compress()`.
* `sk + sk`, `sk * sk`, `sk * u8`: dalek `Scalar` addition / multiplication, transcribed at the level of the integer value of
  the five 52-bit limbs (`UnpackedScalar` = `Scalar52`, backend/serial/u64/scalar.rs): `add` = limb-wise sum then `sub(sum, L)`
  (a borrow-and-add-back subtraction, which reduces only when the operands are reduced); `mul` = two Montgomery reductions
  (`montgomery_reduce(mul_internal(a, b))`, then the same with `RR = R² mod l`, `R = 2^260`). That these compute the sum /
  product modulo `l` ON ACCEPTED KEYS is a theorem (`Proofs/KeyOps.lean`), not the definition.
Point arithmetic is that of curve25519-dalek (a dependency). ADDITION and SUBTRACTION are transcribed from dalek
(edwards.rs `Add/Sub for &EdwardsPoint` = `(self ± &other.as_projective_niels()).as_extended()`, backend/serial/curve_models:
`ProjectiveNielsPoint`, `CompletedPoint`): `toNiels`, `dalekAdd`, `dalekSub` below, written separately from `Ed.add` / `Ed.sub`
(that they compute the same coordinates is a theorem: `Proofs/KeyOps.lean dalekAdd_eq`, `dalekSub_eq`). SCALAR MULTIPLICATION
(`keySmul`, `keyPubOf`: dalek uses signed radix-16 windows / a precomputed base-point table) and the final `compress()` are NOT
modelled independently: they call `Ed.smul` and `Ed.encodePt` of the reference `Ref/Ed25519.lean` — the same functions the spec side
of the driver calls. The operand path (`point()` = the permissive decompression of the STORED bytes, `none` = panic) is the model's own. -/
namespace Monero.Keys
open Ed

/-- `PublicKey::point()`: `none` stands for the panic of `.expect(..)`. The stored value is a `[u8; 32]`; a byte string of
another length is not a value of the type (answered `none` too; the guard also keeps the definition from being unfolded
into the field arithmetic when the argument is a variable). -/
def keyPoint (k : Bytes) : Option Pt := if k.length != 32 then none else decompressDalek (Ed.leNat k)

/-- `PublicKey { point: point.compress() }` (stored bytes) -/
def keyOfPoint (P : Pt) : Bytes := encodePt P

/-- dalek `ProjectiveNielsPoint` (Y+X, Y−X, Z, 2dT) -/
structure Niels where (ypx ymx z t2d : Nat)
/-- `EdwardsPoint::as_projective_niels` (`constants::EDWARDS_D2` = 2d mod p) -/
def toNiels (P : Pt) : Niels := ⟨(P.y + P.x) % p, (P.y + p - P.x) % p, P.z, P.t * (2 * d % p) % p⟩
/-- `CompletedPoint::as_extended` of ((X : Z), (Y : T)) -/
def completedToExtended (X Y Z T : Nat) : Pt := ⟨X * T % p, Y * Z % p, Z * T % p, X * Y % p⟩
/-- `&EdwardsPoint + &EdwardsPoint` = `(self + &other.as_projective_niels()).as_extended()` -/
def dalekAdd (a b : Pt) : Pt :=
  let n := toNiels b
  let PP := (a.y + a.x) % p * n.ypx % p
  let MM := (a.y + p - a.x) % p * n.ymx % p
  let TT2d := a.t * n.t2d % p
  let ZZ := a.z * n.z % p
  let ZZ2 := (ZZ + ZZ) % p
  completedToExtended ((PP + p - MM) % p) ((PP + MM) % p) ((ZZ2 + TT2d) % p) ((ZZ2 + p - TT2d) % p)
/-- `&EdwardsPoint - &EdwardsPoint` = `(self - &other.as_projective_niels()).as_extended()` (the Niels coordinates of `other`
are used crosswise and the roles of Z and T of the completed point are exchanged; `other` is not negated) -/
def dalekSub (a b : Pt) : Pt :=
  let n := toNiels b
  let PM := (a.y + a.x) % p * n.ymx % p
  let MP := (a.y + p - a.x) % p * n.ypx % p
  let TT2d := a.t * n.t2d % p
  let ZZ := a.z * n.z % p
  let ZZ2 := (ZZ + ZZ) % p
  completedToExtended ((PM + p - MP) % p) ((PM + MP) % p) ((ZZ2 + p - TT2d) % p) ((ZZ2 + TT2d) % p)

/-- `Add<PublicKey> for PublicKey` and its three reference forms -/
def keyAdd (a b : Bytes) : Option Bytes :=
  match keyPoint a, keyPoint b with
  | some P, some Q => some (keyOfPoint (dalekAdd P Q))
  | _, _ => none

/-- `Sub<PublicKey> for PublicKey` and its three reference forms -/
def keySub (a b : Bytes) : Option Bytes :=
  match keyPoint a, keyPoint b with
  | some P, some Q => some (keyOfPoint (dalekSub P Q))
  | _, _ => none

/-- `Mul<&PublicKey> for PrivateKey`, `Mul<&PublicKey> for &PrivateKey`, `Mul<&PrivateKey> for PublicKey` (scalar bytes `s`) -/
def keySmul (s k : Bytes) : Option Bytes :=
  match keyPoint k with
  | some P => some (keyOfPoint (Ed.smul (Ed.leNat s) P))
  | none => none

/-- `PublicKey::from_private_key` -/
def keyPubOf (s : Bytes) : Bytes := keyOfPoint (Ed.smul (Ed.leNat s) Ed.G)

/-! ### dalek `Scalar52` arithmetic on the integer value of the limbs -/
/-- the Montgomery radix: five 52-bit limbs -/
def R260 : Nat := 2 ^ 260
/-- `Scalar52::sub(a, b)` (a, b < 2^260): limb-wise difference modulo 2^260 with a borrow chain; when the last borrow is
set (a < b) the constant `L` is added back, again limb-wise modulo 2^260 -/
def sc52Sub (a b : Nat) : Nat :=
  let diff := (a + R260 - b) % R260
  if a < b then (diff + l) % R260 else diff
/-- `Scalar52::add(a, b)`: limb-wise sum with carries (the top carry is dropped: 260 bits), then `sub(sum, L)` -/
def sc52Add (a b : Nat) : Nat := sc52Sub ((a + b) % R260) l
/-- `−l⁻¹ mod 2^260`; dalek's `LFACTOR` is its lowest limb (`lFactor % 2^52 = 0x51da312547e1b`), applied limb by limb -/
def lFactor : Nat := 1460841127323026145909195535181282744217281446807063794674545094323019697126939
/-- `constants::RR` = `R² mod l` (the value of the five limbs in constants.rs) -/
def scRR : Nat := 4185850391763183796333492317919282507600454137915443218209456916606550724923
/-- `Scalar52::montgomery_reduce(x)` on the integer value of the 9-limb product: `m = x·(−l⁻¹) mod R`, `(x + m·l) / R`
(exact division), then `sub(·, L)` -/
def montReduce (x : Nat) : Nat :=
  let m := (x % R260) * lFactor % R260
  sc52Sub ((x + m * l) / R260) l
/-- `Scalar52::mul(a, b)`: `montgomery_reduce(a·b)` then `montgomery_reduce(ab · RR)` -/
def sc52Mul (a b : Nat) : Nat := montReduce (montReduce (a * b) * scRR)

/-- `Add for PrivateKey` (four forms): `self.scalar + other.scalar` = `UnpackedScalar::add(unpack, unpack).pack()` -/
def scalarAdd (a b : Bytes) : Bytes := Ed.toBytesLE (sc52Add (Ed.leNat a) (Ed.leNat b)) 32
/-- `Mul<PrivateKey> for PrivateKey`: `self.scalar * other.scalar` = `UnpackedScalar::mul(unpack, unpack).pack()` -/
def scalarMul (a b : Bytes) : Bytes := Ed.toBytesLE (sc52Mul (Ed.leNat a) (Ed.leNat b)) 32
/-- `Mul<u8> for PrivateKey`: `self.scalar * Scalar::from(other)` (`Scalar::from(n: u8)` = the bytes `[n, 0, …, 0]`; `n < 256`) -/
def scalarMulU8 (a : Bytes) (n : Nat) : Bytes := Ed.toBytesLE (sc52Mul (Ed.leNat a) n) 32

/-- the harness operations: `from_slice` on each operand (`none` = an operand is refused), then the operator
(`some none` = the operator panics) -/
def opAdd (a b : Bytes) : Option (Option Bytes) :=
  match publicFromSlice a, publicFromSlice b with
  | some ka, some kb => some (keyAdd ka kb)
  | _, _ => none
def opSub (a b : Bytes) : Option (Option Bytes) :=
  match publicFromSlice a, publicFromSlice b with
  | some ka, some kb => some (keySub ka kb)
  | _, _ => none
def opSmul (s k : Bytes) : Option (Option Bytes) :=
  match secretFromSlice s, publicFromSlice k with
  | some ks, some kk => some (keySmul ks kk)
  | _, _ => none
def opPubOf (s : Bytes) : Option Bytes := (secretFromSlice s).map keyPubOf
def opScalarAdd (a b : Bytes) : Option Bytes :=
  match secretFromSlice a, secretFromSlice b with
  | some x, some y => some (scalarAdd x y)
  | _, _ => none
def opScalarMul (a b : Bytes) : Option Bytes :=
  match secretFromSlice a, secretFromSlice b with
  | some x, some y => some (scalarMul x y)
  | _, _ => none
def opScalarMulU8 (a : Bytes) (n : Nat) : Option Bytes := (secretFromSlice a).map fun x => scalarMulU8 x n

end Monero.Keys
