import MoneroModel.Model.Keys
/-! Model of the operator impls of `src/util/key.rs` (l.152-229 `PrivateKey`, l.339-436 `PublicKey`), control flow mirrored,
on the STORED key bytes (`Scalar { bytes }`, `CompressedEdwardsY(bytes)`), i.e. on values of the key types — whether or not
they came through `from_slice`.

* `PublicKey::point()` (l.316-320) re-runs dalek's *permissive* `CompressedEdwardsY::decompress` on the stored bytes and
  `.expect`s the result: `keyPoint` (= `Keys.decompressDalek`), `none` = the `expect` panics.
* `a + b`, `a - b` (all four reference forms have the same body): `self.point() ± other.point()`, then `compress()`.
* `sk * &pk`, `&sk * &pk`, `pk * &sk`: `scalar * point()`, then `compress()`.
* `PublicKey::from_private_key`: `&scalar * ED25519_BASEPOINT_TABLE`, then `compress()`.
* `sk + sk`, `sk * sk`, `sk * u8`: dalek `Scalar` addition / multiplication = arithmetic modulo `l` on the little-endian value,
  result stored reduced.
Point arithmetic is that of curve25519-dalek (a dependency); it is modelled by the extended-coordinate formulas of
`Ref/Ed25519.lean` followed by the RFC 8032 compression, which is what dalek's `compress` of the same group element gives. -/
namespace Monero.Keys
open Ed

/-- `PublicKey::point()`: `none` stands for the panic of `.expect(..)`. The stored value is a `[u8; 32]`; a byte string of
another length is not a value of the type (answered `none` too; the guard also keeps the definition from being unfolded
into the field arithmetic when the argument is a variable). -/
def keyPoint (k : Bytes) : Option Pt := if k.length != 32 then none else decompressDalek (Ed.leNat k)

/-- `PublicKey { point: point.compress() }` (stored bytes) -/
def keyOfPoint (P : Pt) : Bytes := encodePt P

/-- `Add<PublicKey> for PublicKey` and its three reference forms -/
def keyAdd (a b : Bytes) : Option Bytes :=
  match keyPoint a, keyPoint b with
  | some P, some Q => some (keyOfPoint (Ed.add P Q))
  | _, _ => none

/-- `Sub<PublicKey> for PublicKey` and its three reference forms -/
def keySub (a b : Bytes) : Option Bytes :=
  match keyPoint a, keyPoint b with
  | some P, some Q => some (keyOfPoint (Ed.sub P Q))
  | _, _ => none

/-- `Mul<&PublicKey> for PrivateKey`, `Mul<&PublicKey> for &PrivateKey`, `Mul<&PrivateKey> for PublicKey` (scalar bytes `s`) -/
def keySmul (s k : Bytes) : Option Bytes :=
  match keyPoint k with
  | some P => some (keyOfPoint (Ed.smul (Ed.leNat s) P))
  | none => none

/-- `PublicKey::from_private_key` -/
def keyPubOf (s : Bytes) : Bytes := keyOfPoint (Ed.smul (Ed.leNat s) Ed.G)

/-- `Add for PrivateKey` (four forms): `self.scalar + other.scalar` -/
def scalarAdd (a b : Bytes) : Bytes := Ed.toBytesLE ((Ed.leNat a + Ed.leNat b) % l) 32
/-- `Mul<PrivateKey> for PrivateKey`: `self.scalar * other.scalar` -/
def scalarMul (a b : Bytes) : Bytes := Ed.toBytesLE ((Ed.leNat a * Ed.leNat b) % l) 32
/-- `Mul<u8> for PrivateKey`: `self.scalar * Scalar::from(other)` -/
def scalarMulU8 (a : Bytes) (n : Nat) : Bytes := Ed.toBytesLE ((Ed.leNat a * (n % 256)) % l) 32

/-- the harness operations: `from_slice` on each operand (`none` = an operand is refused), then the operator
(`some none` = the operator panics) -/
def opAdd (a b : Bytes) : Option (Option Bytes) :=
  match publicFromSlice a, publicFromSlice b with
  | some ka, some kb => some (keyAdd ka kb)
  | _, _ => none
def opSub (a b : Bytes) : Option (Option Bytes) :=
  match publicFromSlice a, publicFromSlice b with
  | some ka, some kb => some (keySub ka kb)
  | _, _ => none
def opSmul (s k : Bytes) : Option (Option Bytes) :=
  match secretFromSlice s, publicFromSlice k with
  | some ks, some kk => some (keySmul ks kk)
  | _, _ => none
def opPubOf (s : Bytes) : Option Bytes := (secretFromSlice s).map keyPubOf
def opScalarAdd (a b : Bytes) : Option Bytes :=
  match secretFromSlice a, secretFromSlice b with
  | some x, some y => some (scalarAdd x y)
  | _, _ => none
def opScalarMul (a b : Bytes) : Option Bytes :=
  match secretFromSlice a, secretFromSlice b with
  | some x, some y => some (scalarMul x y)
  | _, _ => none
def opScalarMulU8 (a : Bytes) (n : Nat) : Option Bytes := (secretFromSlice a).map fun x => scalarMulU8 x n

end Monero.Keys
