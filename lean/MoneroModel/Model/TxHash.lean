import MoneroModel.Model.Block
/-! Model of `TransactionPrefix::hash`, `RctSigBase::hash` and `Transaction::hash` (src/blockdata/transaction.rs:780-817),
for an arbitrary hash function `H` (Keccak-256 in the code). -/
namespace Monero
def zeroHash : Bytes := List.replicate 32 0
/-- `TransactionPrefix::hash` = `Hash::new(serialize(self))` -/
def prefixHash (H : Bytes → Bytes) (p : Prefix) : Bytes := H (encPrefix p)
/-- `Transaction::hash`: version 1 hashes the whole serialisation; otherwise the list
`[prefix.hash()] ++ (if sig present: [sig.hash(), (Null ? Hash::null() : p present ? H(prunable) : hard-coded constant)])`
is concatenated and hashed -/
def txHash (H : Bytes → Bytes) (t : Tx) : Bytes :=
  if t.pre.version = 1 then H (encTx t) else
  let hashes : List Bytes := [prefixHash H t.pre] ++
    (match t.base with
     | none => []
     | some b => [H (encBase b)] ++
        [if b.ty = 0 then zeroHash else
          match t.prun with
          | some p => H (encPrunable p b.ty)
          | none => Gen.emptyPrunableHash])
  H hashes.flatten
end Monero
