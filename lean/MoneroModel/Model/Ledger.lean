import MoneroModel.Model.Block
/-! # C04 allocation ledger: the INSTRUMENTED decoders (definitions only; the theorems are in Proofs/Ledger*.lean)

Every decoder on the path of `Monero.tx` / `Monero.block` gets an instrumented twin (`r…`) that returns, next to the value,
the heap the Rust code has outstanding while it runs (`peak`) and the heap owned by the returned value (`live`):
* `Vec<T>::consensus_decode` / `consensus_decode_sized_vec` — cap check, then `Vec::with_capacity(n)`: `rvec` / `rvecN`,
  `n * size_of::<T>()` charged before the first element;
* vectors that start empty and grow by `push` (`ecdh_info`, `Clsags` and their `s`, `MGs` and their `ss`, the version-1
  signature rows collected from iterators) — `rpushN c d n`: every pushed element is charged `c` bytes with
  `c = GROW * size_of::<T>()`. `GROW = 4` covers `RawVec`'s growth policy at every instant: the capacity after a push is
  at most `max 4 (2·len)` elements and during a reallocation the old buffer (`≤ len`) and the new one (`≤ 2·len`) may
  coexist, so the outstanding bytes never exceed `max 4 (3·len) ≤ 4·len` elements;
* `VarInt::consensus_decode` (encode.rs:355-366) collects the 7-bit groups in a scratch `let mut res: Vec<u8> = vec![]` grown by
  `push`, bounded by NOTHING but the input (a run of `0xff` bytes is pushed to the end of the input before the decoder fails):
  `rvarint` charges it TRANSIENTLY — `scratchU8 k` bytes while `k` groups are held, nothing once the decoder has returned;
* decoders of plain-old-data (`Key`, `TxOutTarget`, `EcdhInfo`, `u32`, …) allocate nothing: `lift`.
Earlier fields stay alive while later ones are decoded (`rbind`). On an error everything is dropped: `live = 0` after a failure
is WRITTEN INTO every combinator — it is the RAII (drop-on-unwind-of-`?`) semantics of Rust assumed by the ledger, not a fact
derived about the decoder.

What the ledger does NOT contain: the input buffer itself, the `Cursor`/reader, error values (`io::Error` may box a few words),
the stack, allocator bookkeeping and fragmentation, and anything the public OPERATIONS on a parsed value allocate (hashing,
formatting, scanning): those are observed by the isolated runs of the harness only. Core Lean only. -/
namespace Ledger
open Monero

/-- result of an instrumented decode: value and rest (or failure), peak outstanding heap during the
    decode, heap still owned by the returned value (`live`, 0 on failure: everything is dropped) -/
structure Res (α : Type) where
  val : Option (α × Bytes)
  peak : Nat
  live : Nat

abbrev RDec (α : Type) := Bytes → Res α

/-- bytes the decoder has looked at: consumed on success, at most the whole input on failure -/
def used {α} (b : Bytes) (r : Res α) : Nat :=
  match r.val with | some (_, rest) => b.length - rest.length | none => b.length

def rpure {α} (x : α) : RDec α := fun b => ⟨some (x, b), 0, 0⟩
def rfail {α} : RDec α := fun _ => ⟨none, 0, 0⟩
def ru8 : RDec UInt8 | [] => ⟨none, 0, 0⟩ | x :: r => ⟨some (x, r), 0, 0⟩

/-- sequencing: the first value stays alive while the second decoder runs -/
def rbind {α β} (d : RDec α) (f : α → RDec β) : RDec β := fun b =>
  match d b with
  | ⟨none, p, _⟩ => ⟨none, p, 0⟩
  | ⟨some (x, r), p1, l1⟩ =>
    match f x r with
    | ⟨none, p2, _⟩ => ⟨none, max p1 (l1 + p2), 0⟩
    | ⟨some (y, r'), p2, l2⟩ => ⟨some (y, r'), max p1 (l1 + p2), l1 + l2⟩

/-- n elements one after the other, earlier ones stay alive -/
def rrep {α} (d : RDec α) : Nat → RDec (List α)
  | 0 => rpure []
  | n+1 => rbind d fun x => rbind (rrep d n) fun xs => rpure (x :: xs)

/-- `Vec::with_capacity(n)` after the cap check, then n elements -/
def rvecN {α} (CAP sz : Nat) (d : RDec α) (n : Nat) : RDec (List α) := fun b =>
  if n * sz > CAP then ⟨none, 0, 0⟩ else
  match rrep d n b with
  | ⟨none, p, _⟩ => ⟨none, n * sz + p, 0⟩
  | ⟨some v, p, l⟩ => ⟨some v, n * sz + p, n * sz + l⟩

end Ledger

open Monero Ledger

/-- a model decoder that allocates nothing -/
def lift {α} (d : Dec α) : RDec α := fun b => ⟨d b, 0, 0⟩

/-- growth factor of a `Vec` filled by `push` (see the header) -/
def GROW : Nat := 4

/-- the value just decoded is pushed onto a growing vector: `c` more bytes are outstanding from now on -/
def rcharge {α} (c : Nat) (d : RDec α) : RDec α := fun b =>
  match d b with
  | ⟨none, p, _⟩ => ⟨none, p, 0⟩
  | ⟨some v, p, l⟩ => ⟨some v, max p (l + c), l + c⟩

/-- a vector that starts empty and receives `n` elements by `push` (no cap check, no pre-allocation) -/
def rpushN {α} (c : Nat) (d : RDec α) (n : Nat) : RDec (List α) := rrep (rcharge c d) n

/-- `C` bytes are allocated before `d` runs and belong to its result (an uncapped up-front reservation) -/
def ralloc {α} (C : Nat) (d : RDec α) : RDec α := fun b =>
  match d b with
  | ⟨none, p, _⟩ => ⟨none, C + p, 0⟩
  | ⟨some v, p, l⟩ => ⟨some v, C + p, C + l⟩

/-! ## `VarInt::consensus_decode`: the scratch vector of 7-bit groups -/

/-- number of groups the loop of `VarInt::consensus_decode` has pushed onto `res` when it stops — at the terminating byte
(pushed), at a zero byte in a later position (`return Err` BEFORE the push) or at the end of the input (`read_u8()?` fails);
`k` = groups pushed so far. Same recursion as `Monero.collect`, with `k` for `acc.length`. -/
def varintPushed : Bytes → Nat → Nat
  | [], k => k
  | b :: bs, k =>
    if b.toNat = 0 ∧ k ≠ 0 then k
    else if b.toNat < 128 then k + 1
    else varintPushed bs (k + 1)

/-- bytes outstanding for a push-grown `Vec<u8>` that has received `k` bytes: nothing before the first push (`vec![]` does not
allocate); `RawVec`'s smallest non-zero capacity for 1-byte elements is 8; afterwards growth as for every push-grown vector -/
def scratchU8 (k : Nat) : Nat := if k = 0 then 0 else max 8 (GROW * k)

/-- instrumented `VarInt::consensus_decode`: the model's value; while it runs the scratch vector is outstanding; it is dropped
before the function returns (on success and on every error path), so nothing stays alive -/
def rvarint : RDec Nat := fun b => ⟨varint b, scratchU8 (varintPushed b 0), 0⟩

/-- `Vec<T>::consensus_decode`: varint count, cap check, `with_capacity`, elements -/
def rvec {α} (sz : Nat) (rd : RDec α) : RDec (List α) := rbind rvarint fun n => rvecN CAP sz rd n

/-! ## transaction prefix -/

/-- instrumented `TxIn::consensus_decode` -/
def rtxin : RDec TxIn := rbind (lift u8) fun t =>
  if t = 0xff then rbind rvarint fun h => rpure (.gen h)
  else if t = 2 then rbind rvarint fun a => rbind (rvec sizes.varint rvarint) fun o => rbind (lift key) fun k => rpure (.toKey a o k)
  else rfail

/-- the inputs vector of a transaction prefix -/
def rvecTxIn : RDec (List TxIn) := rvec sizes.txin rtxin

/-- instrumented `TxOut::consensus_decode`: the amount is a VarInt -/
def rtxout : RDec TxOut := rbind rvarint fun a => rbind (lift target) fun t => rpure ⟨a, t⟩

/-- instrumented `TransactionPrefix::consensus_decode`: three capped vectors one after the other -/
def rprefix : RDec Prefix :=
  rbind rvarint fun v => rbind rvarint fun u => rbind rvecTxIn fun i => rbind (rvec sizes.txout rtxout) fun o =>
  rbind (rvec sizes.u8 (lift u8)) fun e => rpure ⟨v, u, i, o, e⟩

/-! ## constants

`size_of` of the element types of push-grown vectors (`EcdhInfo` 65, `MgSig` 56, `Clsag` 88, `Signature` 64, `Vec<_>` header 24
in the present build) — like the ones of the capped vectors (`sizes.*`) they are `std::mem::size_of` values of the CURRENT build of
the library, regenerated on every run (Gen/Sizes.lean); the slope facts of Proofs/LedgerTx.lean (`GROW * szEcdh ≤ 33 * 8`, …) are
re-checked against them. -/
def szEcdh : Nat := Gen.szEcdh
def szMg : Nat := Gen.szMg
def szClsag : Nat := Gen.szClsag
def szSig : Nat := Gen.szSig
/-- `size_of::<Vec<_>>()`: pointer, capacity, length -/
def szVec : Nat := Gen.szVec

/-! ## RctSigBase -/

/-- instrumented `RctSigBase::consensus_decode`: `pseudo_outs` and `out_pk` pre-allocated after the cap check,
`ecdh_info` grown by `push` (65-byte elements for at least 8 input bytes each) -/
def rbase (inputs outputs : Nat) : RDec Base := rbind (lift u8) fun t =>
  if t.toNat > 6 then rfail
  else if t.toNat = 0 then rpure ⟨0, 0, [], [], []⟩
  else rbind rvarint fun fee =>
    rbind (if t.toNat = 2 then rvecN CAP sizes.key (lift key) inputs else rpure []) fun ps =>
    rbind (rpushN (GROW * szEcdh) (lift (ecdh t.toNat)) outputs) fun e =>
    rbind (rvecN CAP sizes.key (lift key) outputs) fun pk => rpure ⟨t.toNat, fee, ps, e, pk⟩

/-! ## RctSigPrunable -/

def rbp : RDec BP :=
  rbind (lift (takeN (32*6))) fun f => rbind (rvec sizes.key (lift key)) fun l => rbind (rvec sizes.key (lift key)) fun r =>
  rbind (lift (takeN (32*3))) fun t => rpure ⟨f, l, r, t⟩
def rbpp : RDec BPP :=
  rbind (lift (takeN (32*6))) fun f => rbind (rvec sizes.key (lift key)) fun l => rbind (rvec sizes.key (lift key)) fun r =>
  rpure ⟨f, l, r⟩

/-- section 1: range proofs. Every branch pre-allocates after a cap check. -/
def rproofs (ty outputs : Nat) : RDec (List Bytes × List BP × List BPP) :=
  if ty = 4 ∨ ty = 5 then rbind (rvec sizes.bp rbp) fun x => rpure ([], x, [])
  else if ty = 3 then rbind (lift u32le) fun n => rbind (rvecN CAP sizes.bp rbp n) fun x => rpure ([], x, [])
  else if ty = 6 then rbind (lift u8) fun n => rbind (rvecN CAP sizes.bpp rbpp n.toNat) fun x => rpure ([], [], x)
  else rbind (rvecN CAP sizes.rangesig (lift (takeN 6176)) outputs) fun x => rpure (x, [], [])

/-- instrumented Clsag: `s` grows by `push` (32-byte keys), then `c1` and `D` -/
def rclsag (mixin : Nat) : RDec Clsag :=
  rbind (rpushN (GROW * 32) (lift key) (mixin+1)) fun s => rbind (lift key) fun c1 => rbind (lift key) fun d => rpure ⟨s, c1, d⟩
/-- instrumented MgSig: `ss` grows by `push` of `Vec<Key>` headers, each row a capped pre-allocated key vector; then `cc` -/
def rmg (cols mixin : Nat) : RDec MG :=
  rbind (rpushN (GROW * szVec) (rvecN CAP sizes.key (lift key) cols) (mixin+1)) fun ss => rbind (lift key) fun cc => rpure ⟨ss, cc⟩

/-- section 2: ring signatures, all grown by `push` -/
def rsigs (ty inputs mixin : Nat) : RDec (List MG × List Clsag) :=
  if ty = 5 ∨ ty = 6 then rbind (rpushN (GROW * szClsag) (rclsag mixin) inputs) fun cs => rpure ([], cs)
  else
    rbind (rpushN (GROW * szMg) (rmg (if ty = 2 ∨ ty = 3 ∨ ty = 4 then 2 else 1 + inputs) mixin)
      (if ty = 2 ∨ ty = 3 ∨ ty = 4 then inputs else 1)) fun ms => rpure (ms, [])

/-- section 3: pseudo outs -/
def rpseudo (ty inputs : Nat) : RDec (List Bytes) :=
  if ty ≥ 3 then rvecN CAP sizes.key (lift key) inputs else rpure []

/-- instrumented `RctSigPrunable::consensus_decode` -/
def rprunable (ty inputs outputs mixin : Nat) : RDec (Option Prunable) :=
  if ty = 0 then rpure none else
  rbind (rproofs ty outputs) fun (rs, bps, bpps) =>
  rbind (rsigs ty inputs mixin) fun (ms, cs) =>
  rbind (rpseudo ty inputs) fun po =>
  rpure (some ⟨rs, bps, bpps, ms, cs, po⟩)

/-! ## Transaction -/

/-- version-1 signature rows: each row (`Vec<Signature>`, collected from an iterator of `Result`s, hence grown by `push`)
costs `GROW·64` heap bytes per 64-byte signature. The headers of the rows vector are reserved by `rtx` (see `BoundedC`). -/
def rsigRows : List Nat → RDec (List (List Bytes))
  | [] => rpure []
  | n :: t => rbind (rpushN (GROW * szSig) (lift (takeN 64)) n) fun s => rbind (rsigRows t) fun ss => rpure (s :: ss)

/-- ring sizes of the key inputs (one signature row each) -/
def ledgerRings (p : Prefix) : List Nat := p.ins.filterMap fun i => match i with | .toKey _ o _ => some o.length | _ => none

/-- instrumented `Transaction::consensus_decode`. The prefix stays alive throughout. Version 1: the rows vector
(`Vec<Vec<Signature>>`, push-grown, one 24-byte header per key input) is charged in full, `GROW·24` per row, before the
first row is read — an over-approximation at every instant. -/
def rtx : RDec Tx := rbind rprefix fun p =>
  if p.version = 1 then
    ralloc ((ledgerRings p).length * (GROW * szVec)) (rbind (rsigRows (ledgerRings p)) fun s => rpure ⟨p, s, none, none⟩)
  else if p.ins.length = 0 then rpure ⟨p, [], none, none⟩
  else rbind (rbase p.ins.length p.outs.length) fun b =>
    if b.ty ≠ 0 then
      match p.ins.head? with
      | some (.toKey _ o _) =>
        if o.length = 0 then rfail
        else rbind (rprunable b.ty p.ins.length p.outs.length (o.length - 1)) fun pr => rpure ⟨p, [], some b, pr⟩
      | _ => rbind (rprunable b.ty p.ins.length p.outs.length 0) fun pr => rpure ⟨p, [], some b, pr⟩
    else rpure ⟨p, [], some b, none⟩

/-! ## Block -/

/-- instrumented `BlockHeader::consensus_decode`: three VarInts (scratch only), the previous id, the nonce -/
def rheader : RDec Header :=
  rbind rvarint fun ma => rbind rvarint fun mi => rbind rvarint fun ts => rbind (lift key) fun pv => rbind (lift (uintLE 4)) fun n =>
  rpure ⟨ma, mi, ts, pv, n⟩

/-- instrumented `Block::consensus_decode`: header, miner transaction, capped vector of 32-byte hashes -/
def rblock : RDec Block :=
  rbind rheader fun h => rbind rtx fun t => rbind (rvec sizes.key (lift key)) fun hs => rpure ⟨h, t, hs⟩
