import MoneroModel.Model.VarInt
import MoneroModel.Gen.Consts
/-! Model of the key-derivation layer: src/cryptonote/onetime_key.rs (`KeyGenerator`, `KeyRecoverer`),
src/cryptonote/subaddress.rs, and the parts of src/util/key.rs they use. The primitives that the Rust code takes from
curve25519-dalek and tiny-keccak are a parameter record `CryptoOps`; theorems quantify over every lawful instance,
the driver instantiates it with the Lean reference curve and Keccak (Drv/CryptoRef.lean).
Scalars are naturals below `ops.l`; `smul k P` is `k • P` for the *integer* k on ANY point (what a variable-base
ladder computes also on points with a torsion component). Core Lean only. -/
namespace Monero

structure CryptoOps (P : Type) where
  add : P → P → P
  sub : P → P → P
  smul : Nat → P → P
  base : P
  /-- `CompressedEdwardsY` bytes of a point -/
  enc : P → Bytes
  /-- `PublicKey::from_slice`: accepted encodings only -/
  dec : Bytes → Option P
  keccak : Bytes → Bytes
  l : Nat

def leNat (b : Bytes) : Nat := b.foldr (fun x acc => x.toNat + 256 * acc) 0
def toBytesLE (n len : Nat) : Bytes := (List.range len).map fun i => UInt8.ofNat ((n / 256 ^ i) % 256)
/-- `Scalar::as_bytes` of a reduced scalar -/
def scalarBytes (n : Nat) : Bytes := toBytesLE n 32
/-- `u32::consensus_encode` -/
def le32 (n : Nat) : Bytes := toBytesLE n 4

variable {P : Type}

/-- `Hash::hash_to_scalar`: Keccak, little-endian, reduced mod l -/
def hsOf (ops : CryptoOps P) (m : Bytes) : Nat := leNat (ops.keccak m) % ops.l

/-- `KeyGenerator::from_key(keys, R).rv` / `from_random(V, S, r).rv` (HEAD of /repo, after the cofactor fix):
`PrivateKey::from_scalar(MONERO_MUL_FACTOR.into()) * &(v * &R)` -/
def derive (ops : CryptoOps P) (v : Nat) (R : P) : P := ops.smul (Gen.mulFactor % ops.l) (ops.smul v R)

/-- `KeyGenerator::get_rvn_scalar`: Hs(enc(rv) ‖ varint(index)) -/
def rvnScalar (ops : CryptoOps P) (D : P) (index : Nat) : Nat := hsOf ops (ops.enc D ++ encVarint index)

/-- `PublicKey::from_private_key` -/
def pubOf (ops : CryptoOps P) (k : Nat) : P := ops.smul k ops.base

/-- `KeyGenerator::one_time_key`: Hs(rv ‖ n)·G + S -/
def oneTimeKey (ops : CryptoOps P) (D S : P) (index : Nat) : P := ops.add (pubOf ops (rvnScalar ops D index)) S

/-- `subaddress::get_secret_scalar`: m = Hs("SubAddr\0" ‖ v ‖ major_le32 ‖ minor_le32) -/
def subScalar (ops : CryptoOps P) (v : Nat) (i j : Nat) : Nat :=
  hsOf ops (Gen.subaddrSalt ++ scalarBytes v ++ le32 i ++ le32 j)

/-- `Index::is_zero` -/
def idxZero (i j : Nat) : Bool := i == 0 && j == 0

/-- `get_spend_public_key` -/
def subSpendPub (ops : CryptoOps P) (v : Nat) (S : P) (i j : Nat) : P :=
  if idxZero i j then S else ops.add S (pubOf ops (subScalar ops v i j))
/-- `get_public_keys`: (view, spend) -/
def subPublicKeys (ops : CryptoOps P) (v : Nat) (S : P) (i j : Nat) : P × P :=
  if idxZero i j then (pubOf ops v, S) else
  let spend := subSpendPub ops v S i j
  (ops.smul v spend, spend)
/-- `get_spend_secret_key` -/
def subSpendSec (ops : CryptoOps P) (v s : Nat) (i j : Nat) : Nat :=
  if idxZero i j then s else (s + subScalar ops v i j) % ops.l
/-- `get_view_secret_key` -/
def subViewSec (ops : CryptoOps P) (v s : Nat) (i j : Nat) : Nat :=
  if idxZero i j then v else (v * subSpendSec ops v s i j) % ops.l

/-- `KeyRecoverer::recover`: Hs(rv ‖ n) + s' -/
def recoverKey (ops : CryptoOps P) (v s : Nat) (R : P) (index : Nat) (i j : Nat) : Nat :=
  (rvnScalar ops (derive ops v R) index + subSpendSec ops v s i j) % ops.l

/-- `TxOutTarget::check_view_tag`: first byte of Keccak("view_tag" ‖ rv ‖ varint(index)) -/
def viewTagOf (ops : CryptoOps P) (D : P) (index : Nat) : UInt8 :=
  (ops.keccak (Gen.viewTagSalt ++ ops.enc D ++ encVarint index)).headD 0
/-! ### separately written counterparts (added after the audit of C09–C11; the definitions above are unchanged)

The two constructors of `KeyGenerator` are two Rust bodies; above both are `derive`. Here each has its own definition,
mirroring its own source line, so that a statement "sender = receiver" relates two functions (Props/C10 proves both equal
to `derive`). -/

/-- `KeyGenerator::from_random(view, spend, random).rv` (onetime_key.rs:82-86):
`PrivateKey::from_scalar(MONERO_MUL_FACTOR.into()) * &(random * &view)` -/
def deriveSender (ops : CryptoOps P) (random : Nat) (view : P) : P :=
  let rV := ops.smul random view
  ops.smul (Gen.mulFactor % ops.l) rV

/-- `KeyGenerator::from_key(keys, random).rv` (onetime_key.rs:90-97):
`PrivateKey::from_scalar(MONERO_MUL_FACTOR.into()) * &(keys.view * &random)` -/
def deriveReceiver (ops : CryptoOps P) (keysView : Nat) (random : P) : P :=
  let vR := ops.smul keysView random
  ops.smul (Gen.mulFactor % ops.l) vR

/-- `KeyGenerator::check(index, key)` (onetime_key.rs:107-109) on a generator with `rv = D`, `spend = S`:
`key == self.one_time_key(index)`; `PublicKey`'s `==` is that of the 32 compressed bytes -/
def keyGenCheck (ops : CryptoOps P) (D S : P) (index : Nat) (key : P) : Bool :=
  ops.enc key == ops.enc (oneTimeKey ops D S index)

/-- `subaddress::get_secret_keys` (subaddress.rs:103-107): `KeyPair { view: get_view_secret_key, spend: get_spend_secret_key }`,
as the pair (view, spend) -/
def subSecretKeys (ops : CryptoOps P) (v s : Nat) (i j : Nat) : Nat × Nat :=
  let view := subViewSec ops v s i j
  let spend := subSpendSec ops v s i j
  (view, spend)
/-! ### panic-explicit, byte-level constructors (added after the review of C10)

`deriveSender` / `deriveReceiver` above are the SAME expression up to the names of the bound variables — as are the two Rust bodies
(`random * &view` and `keys.view * &random` are the same `Mul` impl). What the point-level definitions leave out is that each `Mul`
goes through the STORED bytes: `PrivateKey * &PublicKey` (key.rs:209-229) calls `other.point()` (decompress + `expect`, a panic site)
and compresses the product into a new `PublicKey`, which the second multiplication decompresses again. -/

/-- `PrivateKey * &PublicKey` on the stored bytes of the key: `none` = the panic of `PublicKey::point()`. `point()` does NOT use
`PublicKey::from_slice` (= `ops.dec`, canonical encodings only) but dalek's PERMISSIVE `CompressedEdwardsY::decompress`; as in
Model/Scan.lean that decoder is the extra parameter `decP` (instantiated with `Keys.decompressDalek` on 32 bytes — the `keyPoint` of
Model/KeyOps.lean — by the driver and with `decPermissive`, Proofs/EdwardsPermissive.lean, in the Ed25519 theorems). A `PublicKey` built
through its public field may hold non-canonical bytes that decompress (`edff…ff7f` = y ≡ 0, `0100…0080` = "−0"): no panic there. -/
def mulKeyBytes (ops : CryptoOps P) (decP : Bytes → Option P) (a : Nat) (key : Bytes) : Option Bytes :=
  match decP key with
  | none => none
  | some B => some (ops.enc (ops.smul a B))

/-- `KeyGenerator::from_random(view, spend, random).rv` with both `Mul` steps and the intermediate `PublicKey` explicit -/
def deriveSenderBytes (ops : CryptoOps P) (decP : Bytes → Option P) (random : Nat) (view : Bytes) : Option Bytes :=
  match mulKeyBytes ops decP random view with                          -- random * &view
  | none => none
  | some rV => mulKeyBytes ops decP (Gen.mulFactor % ops.l) rV         -- PrivateKey::from_scalar(MONERO_MUL_FACTOR.into()) * &(..)

/-- `KeyGenerator::from_key(keys, random).rv`, likewise -/
def deriveReceiverBytes (ops : CryptoOps P) (decP : Bytes → Option P) (keysView : Nat) (random : Bytes) : Option Bytes :=
  match mulKeyBytes ops decP keysView random with                      -- keys.view * &random
  | none => none
  | some vR => mulKeyBytes ops decP (Gen.mulFactor % ops.l) vR
end Monero
