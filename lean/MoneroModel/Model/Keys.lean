import MoneroModel.Basic
import MoneroModel.Ref.Ed25519
/-! Model of `src/util/key.rs` key acceptance, control flow mirrored.

* `PrivateKey::from_slice`: length check, then `Scalar::from_canonical_bytes` (curve25519-dalek 4.1.3, scalar.rs):
  `high_bit_unset & candidate.is_canonical()` where `is_canonical` is `self == self.reduce()` (a comparison of the 32
  bytes with the bytes of the value reduced modulo `l`).
* `PublicKey::from_slice`: length check, `CompressedEdwardsY::decompress`, then `point.compress().as_bytes() != data`.
  dalek's `decompress` (edwards.rs `step_1`/`step_2`, field.rs `sqrt_ratio_i`) is *permissive*: `FieldElement::from_bytes`
  ignores bit 255 and does not reject y ≥ p (the value is used modulo p), and the sign bit is applied by a conditional
  negation, so x = 0 with the sign bit set is accepted by `decompress` itself. The library therefore recompresses and
  compares — modelled here the same way (`decompressDalek`, then `Ed.compress`, then comparison of the bytes).
* text / consensus forms: lowercase hex of the 32 bytes / the 32 raw bytes.
Field arithmetic is on `Nat` with explicit `% p`, reusing `Ed.powmod`, `Ed.inv`, `Ed.compress`, `Ed.sqrtm1`, `Ed.d`. -/
namespace Monero.Keys
open Ed

/-- `Scalar::from_canonical_bytes` on a 32-byte array -/
def scalarFromCanonicalBytes (b : Bytes) : Bool :=
  let highBitUnset := (b.getD 31 0) >>> 7 == 0
  let isCanonical := toBytesLE (leNat b % l) 32 == b      -- `self == self.reduce()`
  highBitUnset && isCanonical

/-- `PrivateKey::from_slice(data).is_ok()` -/
def secretAccept (b : Bytes) : Bool :=
  if b.length != 32 then false else scalarFromCanonicalBytes b

/-- first half of `FieldElement::sqrt_ratio_i(u, v)`: the candidate `r = (u v³)(u v⁷)^((p−5)/8)` -/
def sqrtCandidate (u v : Nat) : Nat :=
  let v3 := v * v % p * v % p
  let v7 := v3 * v3 % p * v % p
  (u * v3 % p) * powmod (u * v7 % p) ((p - 5) / 8) p % p

/-- second half of `sqrt_ratio_i`: compare `v r²` with `u`, `−u`, `−u·i`, fix the candidate, take the non-negative (even) root -/
def sqrtSelect (u v r0 : Nat) : Bool × Nat :=
  let check := v * (r0 * r0 % p) % p
  let negu := (p - u) % p
  let correct := check == u
  let flipped := check == negu
  let flippedI := check == negu * sqrtm1 % p
  let r := if flipped || flippedI then sqrtm1 * r0 % p else r0
  let r := if r % 2 == 1 then p - r else r            -- conditional_negate(r.is_negative())
  (correct || flipped, r)

/-- `FieldElement::sqrt_ratio_i(u, v)` on reduced inputs: `(was_nonzero_square, r)` -/
def sqrtRatioI (u v : Nat) : Bool × Nat := sqrtSelect u v (sqrtCandidate u v)

/-- `CompressedEdwardsY::decompress` of the 256-bit little-endian integer `k` (permissive, see the header) -/
def decompressDalek (k : Nat) : Option Pt :=
  let y := (k % 2^255) % p                               -- FieldElement::from_bytes: bit 255 ignored, value mod p
  let sign := k / 2^255
  let yy := y * y % p
  let u := (yy + p - 1) % p
  let v := (yy * d + 1) % p
  let sr := sqrtRatioI u v
  if !sr.1 then none else
  let x := if sign == 1 then (p - sr.2) % p else sr.2     -- conditional_negate(sign bit)
  some ⟨x, y, 1, x * y % p⟩

/-- `PublicKey::from_slice(data).is_ok()` -/
def publicAccept (b : Bytes) : Bool :=
  if b.length != 32 then false else
  match decompressDalek (leNat b) with
  | none => false
  | some P => encodePt P == b                            -- `point.compress().as_bytes() != data` → error

/-- `from_slice` results: the stored value is the input bytes themselves (`Scalar { bytes }`, `CompressedEdwardsY(bytes)`) -/
def secretFromSlice (b : Bytes) : Option Bytes := if secretAccept b then some b else none
def publicFromSlice (b : Bytes) : Option Bytes := if publicAccept b then some b else none
/-- `to_bytes` / `as_bytes` -/
def keyToBytes (k : Bytes) : Bytes := k

/-- consensus form: `Decodable` reads a `[u8; 32]` then calls `from_slice`; `Encodable` writes the 32 bytes -/
def consensusDecodeWith (accept : Bytes → Bool) : Dec Bytes := fun inp =>
  match takeN 32 inp with
  | none => none
  | some (b, rest) => if accept b then some (b, rest) else none
def publicConsensusDecode : Dec Bytes := consensusDecodeWith publicAccept
def secretConsensusDecode : Dec Bytes := consensusDecodeWith secretAccept
def consensusEncode (k : Bytes) : Bytes := k

/-- text form: `Display` = lowercase hex (`hex::encode`), `FromStr` = `hex::decode` (either case, even length) then `from_slice` -/
def hexDigit (n : Nat) : Char := if n < 10 then Char.ofNat (48 + n) else Char.ofNat (87 + n)
def hexEncode : Bytes → List Char
  | [] => []
  | b :: t => hexDigit (b.toNat / 16) :: hexDigit (b.toNat % 16) :: hexEncode t
def hexVal (c : Char) : Option Nat :=
  if '0' ≤ c ∧ c ≤ '9' then some (c.toNat - 48)
  else if 'a' ≤ c ∧ c ≤ 'f' then some (c.toNat - 87)
  else if 'A' ≤ c ∧ c ≤ 'F' then some (c.toNat - 55)
  else none
def hexDecode : List Char → Option Bytes
  | [] => some []
  | [_] => none
  | a :: b :: t =>
    match hexVal a, hexVal b, hexDecode t with
    | some x, some y, some r => some (UInt8.ofNat (x * 16 + y) :: r)
    | _, _, _ => none
def publicFromStr (s : List Char) : Option Bytes := match hexDecode s with | none => none | some b => publicFromSlice b
def secretFromStr (s : List Char) : Option Bytes := match hexDecode s with | none => none | some b => secretFromSlice b
def keyToString (k : Bytes) : List Char := hexEncode k

end Monero.Keys
