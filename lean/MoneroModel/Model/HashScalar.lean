import MoneroModel.Basic
import MoneroModel.Ref.Ed25519
import MoneroModel.Ref.Keccak
/-! Model of `src/cryptonote/hash.rs`: `keccak_256` / `Hash::new` (one-shot Keccak-256, modelled by the reference sponge —
the library code is a six-line wrapper around `tiny-keccak`), `Hash::as_scalar` (= `Scalar::from_bytes_mod_order`: the
32 digest bytes read as a little-endian integer, reduced modulo the group order `l`) and `Hash::hash_to_scalar`. -/
namespace Monero.HashScalar

/-- `Hash::new` / `keccak_256` -/
def hashNew (msg : Bytes) : Bytes := Keccak.keccak256 msg

/-- `Hash::as_scalar` as an integer: little-endian value of the digest modulo `l` -/
def hs (digest : Bytes) : Nat := Ed.leNat digest % Ed.l

/-- the 32-byte little-endian encoding of the scalar (`PrivateKey::to_bytes` of `as_scalar`) -/
def hsBytes (digest : Bytes) : Bytes := Ed.toBytesLE (hs digest) 32

/-- `Hash::hash_to_scalar` for a hash function `H` (the library instantiates `H = keccak_256`) -/
def hashToScalar (H : Bytes → Bytes) (msg : Bytes) : Nat := hs (H msg)
def hashToScalarBytes (H : Bytes → Bytes) (msg : Bytes) : Bytes := Ed.toBytesLE (hashToScalar H msg) 32

/-- the provided trait method `Hashable::hash_to_scalar` (hash.rs:111-113) — `self.hash().as_scalar()` — for any implementor,
given by its `hash : α → Bytes` (`PublicKey`: Keccak of the 32 key bytes; `TransactionPrefix` / `RctSigBase`: Keccak of the
serialisation; `Transaction`: `Monero.txHash`). The method has no logic of its own: it must not hash again, nor reduce twice. -/
def hashableToScalarBytes {α : Type} (hash : α → Bytes) (x : α) : Bytes := hsBytes (hash x)

end Monero.HashScalar
