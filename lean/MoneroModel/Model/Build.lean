import MoneroModel.Model.Block
import MoneroModel.Spec.Wire
/-! `build`: the Rust-shaped value (`Monero.Tx`, `Monero.Block`) that an abstract description (`Spec.TxD`) denotes —
what a user of the library fills into the public structs. Used by C03 to relate the codec to the by-the-book layout. -/
namespace Monero
open Spec (TxD InD OutD RctD BodyD BpD BppD RangeSigD MgD ClsagD HeaderD BlockD)

def buildIn : InD → TxIn | .gen h => .gen h | .key a o k => .toKey a o k
def buildOut (o : OutD) : TxOut := ⟨o.amount, match o.tag with | none => .key o.key | some t => .tagged o.key t⟩
def buildPrefix (d : TxD) : Prefix := ⟨d.version, d.unlock, d.ins.map buildIn, d.outs.map buildOut, d.extra⟩
def buildBp (p : BpD) : BP := ⟨p.A ++ p.S ++ p.T1 ++ p.T2 ++ p.taux ++ p.mu, p.L, p.R, p.a ++ p.b ++ p.t⟩
def buildBpp (p : BppD) : BPP := ⟨p.A ++ p.A1 ++ p.Bk ++ p.r1 ++ p.s1 ++ p.d1, p.L, p.R⟩
def buildRangeSig (r : RangeSigD) : Bytes := Spec.cat r.s0 ++ Spec.cat r.s1 ++ r.ee ++ Spec.cat r.Ci
def buildMg (m : MgD) : MG := ⟨m.ss, m.cc⟩
def buildClsag (c : ClsagD) : Clsag := ⟨c.s, c.c1, c.D⟩
def ecdhFull (e : Bytes × Bytes) : Ecdh := .std e.1 e.2
def buildBase : RctD → Base
  | .null => ⟨0, 0, [], [], []⟩
  | .full fee ecdh outPk _ _ => ⟨1, fee, [], ecdh.map ecdhFull, outPk⟩
  | .simple fee po ecdh outPk _ _ => ⟨2, fee, po, ecdh.map ecdhFull, outPk⟩
  | .bulletproof fee ecdh outPk _ _ _ => ⟨3, fee, [], ecdh.map ecdhFull, outPk⟩
  | .bulletproof2 fee ecdh outPk _ _ _ => ⟨4, fee, [], ecdh.map .bp, outPk⟩
  | .clsag fee ecdh outPk _ _ _ => ⟨5, fee, [], ecdh.map .bp, outPk⟩
  | .bpplus fee ecdh outPk _ _ _ => ⟨6, fee, [], ecdh.map .bp, outPk⟩
def buildPrunable : RctD → Option Prunable
  | .null => none
  | .full _ _ _ rs mg => some ⟨rs.map buildRangeSig, [], [], [buildMg mg], [], []⟩
  | .simple _ _ _ _ rs mgs => some ⟨rs.map buildRangeSig, [], [], mgs.map buildMg, [], []⟩
  | .bulletproof _ _ _ bps mgs po => some ⟨[], bps.map buildBp, [], mgs.map buildMg, [], po⟩
  | .bulletproof2 _ _ _ bps mgs po => some ⟨[], bps.map buildBp, [], mgs.map buildMg, [], po⟩
  | .clsag _ _ _ bps cls po => some ⟨[], bps.map buildBp, [], [], cls.map buildClsag, po⟩
  | .bpplus _ _ _ bpps cls po => some ⟨[], [], bpps.map buildBpp, [], cls.map buildClsag, po⟩
def sigBytes (s : Bytes × Bytes) : Bytes := s.1 ++ s.2
def build (d : TxD) : Tx :=
  match d.body with
  | .v1 sigs => ⟨buildPrefix d, sigs.map (fun row => row.map sigBytes), none, none⟩
  | .v2 none => ⟨buildPrefix d, [], none, none⟩
  | .v2 (some r) => ⟨buildPrefix d, [], some (buildBase r), buildPrunable r⟩
def buildHeader (h : HeaderD) : Header := ⟨h.major, h.minor, h.timestamp, h.prevId, h.nonce⟩
def buildBlock (b : BlockD) : Block := ⟨buildHeader b.hdr, build b.miner, b.txHashes⟩
end Monero
