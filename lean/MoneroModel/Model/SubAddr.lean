import MoneroModel.Model.Crypto
import MoneroModel.Model.Address
/-! Model of `subaddress::get_subaddress` (src/cryptonote/subaddress.rs:143-152) on top of the key-derivation model
(Model/Crypto.lean) and the address model (Model/Address.lean). Core Lean only. -/
namespace Monero
variable {P : Type}
/-- `get_subaddress(keys, index, network)`:
`let net = network.unwrap_or_default(); let (view, spend) = get_public_keys(keys, index); Address::subaddress(net, spend, view)`.
Keys are stored compressed (`PublicKey { point: CompressedEdwardsY }`), hence `enc`. NOTE: there is no test of the index
here — at index (0,0) the result is a SubAddress-typed address carrying the PRIMARY keys. -/
def getSubaddress (ops : CryptoOps P) (v : Nat) (S : P) (i j : Nat) (network : Option Net) : Address :=
  let net := network.getD Net.Mainnet
  let (view, spend) := subPublicKeys ops v S i j
  { net := net, kind := Kind.SubAddress, pid := [], spend := ops.enc spend, view := ops.enc view }
end Monero
