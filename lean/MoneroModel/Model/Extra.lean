import MoneroModel.Model.Tx
/-! Model of the transaction *extra* field (src/blockdata/transaction.rs): `SubField::consensus_decode`
(820-870), `SubField::consensus_encode` (872-919), `ExtraField::try_parse` (318-341), `RawExtraField::try_parse`
(403-415), `Encodable for ExtraField` (809-818), `From<ExtraField> for RawExtraField` (417-421) and the accessors
`ExtraField::{tx_pubkey, tx_additional_pubkeys}` (302-316).

`try_parse` keeps going after a failed sub-field *from wherever the cursor was left*, so the ordinary decoder monad
(`Dec`, which forgets the cursor on failure) is not enough: every reader here is an `Rd α = Bytes → Option α × Bytes`
that returns the remaining input also when it fails. Every read inside a sub-field is a one-byte `read_exact` on an
`io::Cursor` (u8, `[u8; 32]` element by element, `Vec<u8>` element by element), so a read of `n` bytes on a shorter
input leaves the cursor at the end of the input.

Public-key validity (`PublicKey::from_slice`: decompress and compare the re-compression) is a parameter
`vk : Bytes → Bool` of the model. Core Lean only. -/
namespace Monero.Extra

/-- `SubField` (transaction.rs:343-366). Keys and the merkle root are their 32 wire bytes; `Padding(u8)` and the
`VarInt(u64)` depth are naturals (their ranges are part of well-formedness). -/
inductive SubField
  | txPub (k : Bytes)
  | nonce (n : Bytes)
  | padding (n : Nat)
  | mergeMining (depth : Nat) (root : Bytes)
  | addKeys (ks : List Bytes)
  | minerGate (d : Bytes)
  deriving DecidableEq, Repr

/-- a reader that reports the cursor also on failure: (result, remaining input) -/
abbrev Rd (α : Type) := Bytes → Option α × Bytes

@[inline] def rbind {α β} (d : Rd α) (f : α → Rd β) : Rd β := fun b =>
  match d b with
  | (none, r) => (none, r)
  | (some x, r) => f x r
@[inline] def rpure {α} (x : α) : Rd α := fun b => (some x, b)
/-- an error raised without reading -/
@[inline] def rfail {α} : Rd α := fun b => (none, b)

/-- `u8::consensus_decode`: a one-byte `read_exact` -/
def byteRd : Rd UInt8
  | [] => (none, [])
  | x :: xs => (some x, xs)

/-- `n` successive one-byte reads; on a short input the cursor ends at the end of the input -/
def takeRd (n : Nat) : Rd Bytes := fun b =>
  if b.length < n then (none, []) else (some (b.take n), b.drop n)

/-- the group-collecting loop of `VarInt::consensus_decode` (encode.rs:357-368) with the cursor: EOF leaves the
cursor at the end, the zero-byte rule fires after the zero byte has been read -/
def collectRd : Bytes → List Nat → Option (List Nat) × Bytes
  | [], _ => (none, [])
  | x :: xs, acc =>
    if x.toNat = 0 ∧ acc ≠ [] then (none, xs)
    else if x.toNat < 128 then (some (acc ++ [x.toNat % 128]), xs)
    else collectRd xs (acc ++ [x.toNat % 128])

/-- `VarInt::consensus_decode` with the cursor; the overflow check (`accum`, shared with `Monero.varint`) happens after
the terminating byte has been read -/
def varintRd : Rd Nat := fun b =>
  match collectRd b [] with
  | (none, r) => (none, r)
  | (some gs, r) => (accum gs.reverse 0, r)

/-- `Vec<u8>::consensus_decode` (encode.rs:484-504): length, allocation cap (`size_of::<u8>() = 1`), elements -/
def vecU8Rd : Rd Bytes := rbind varintRd fun n =>
  if n * sizes.u8 > CAP then rfail else takeRd n

/-- `PublicKey::consensus_decode` (key.rs:472-477): 32 bytes, then the validity check -/
def keyRd (vk : Bytes → Bool) : Rd Bytes := rbind (takeRd 32) fun k =>
  if vk k then rpure k else rfail

/-- the element loop of `Vec<PublicKey>::consensus_decode` (tail recursive) -/
def keysLoop (vk : Bytes → Bool) : Nat → List Bytes → Rd (List Bytes)
  | 0, acc => rpure acc.reverse
  | n+1, acc => fun b =>
    match keyRd vk b with
    | (none, r) => (none, r)
    | (some k, r) => keysLoop vk n (k :: acc) r

/-- `Vec<PublicKey>::consensus_decode`: cap check with `size_of::<PublicKey>() = 32` before any element is read -/
def keysRd (vk : Bytes → Bool) : Rd (List Bytes) := rbind varintRd fun n =>
  if n * sizes.key > CAP then rfail else keysLoop vk n []

/-- the padding loop `for _ in 1..=u8::MAX` (transaction.rs:826-843): `fuel` iterations left, `i` zero bytes counted;
stops at the end of the input; a non-zero byte is consumed and is an error -/
def padLoop : Nat → Nat → Rd SubField
  | 0, i => rpure (.padding i)
  | fuel+1, i => fun b =>
    match b with
    | [] => (some (.padding i), [])
    | x :: xs => if x ≠ 0 then (none, xs) else padLoop fuel (i+1) xs

/-- `SubField::consensus_decode` (transaction.rs:820-870) -/
def subFieldRd (vk : Bytes → Bool) : Rd SubField := rbind byteRd fun tag =>
  if tag = 0x00 then padLoop 255 0
  else if tag = 0x01 then rbind (keyRd vk) fun k => rpure (.txPub k)
  else if tag = 0x02 then rbind vecU8Rd fun n => rpure (.nonce n)
  else if tag = 0x03 then
    -- the size byte is read and ignored
    rbind byteRd fun _size => rbind varintRd fun d => rbind (takeRd 32) fun h => rpure (.mergeMining d h)
  else if tag = 0x04 then rbind (keysRd vk) fun ks => rpure (.addKeys ks)
  else if tag = 0xde then rbind vecU8Rd fun d => rpure (.minerGate d)
  else rfail

/-- `deserialize::<SubField>` (encode.rs:84-96): decode, then everything must have been consumed -/
def subFieldStrict (vk : Bytes → Bool) (b : Bytes) : Option SubField :=
  match subFieldRd vk b with
  | (some sf, []) => some sf
  | _ => none

/-- state of the `try_parse` loop when it stops -/
structure Parsed where
  /-- the `err` flag: some sub-field decode failed -/
  err : Bool
  /-- all sub-fields pushed (including those salvaged after a failure) -/
  fields : List SubField
  /-- the sub-fields pushed before the first failure (= `fields` when `err = false`) -/
  pre : List SubField
  deriving DecidableEq, Repr

/-- the `while decoder.position() < bytes.len()` loop of `ExtraField::try_parse` (transaction.rs:318-341) with fuel;
`none` = fuel exhausted with input left (never happens with fuel ≥ remaining length: `C16_total`).
`acc` = `fields` reversed, `npre` = number of fields pushed before the first failure. -/
def loop (vk : Bytes → Bool) : Nat → Bytes → List SubField → Bool → Nat → Option Parsed
  | _, [], acc, err, npre => some ⟨err, acc.reverse, acc.reverse.take npre⟩
  | 0, _ :: _, _, _, _ => none
  | fuel+1, x :: xs, acc, err, npre =>
    match subFieldRd vk (x :: xs) with
    | (some sf, r) => loop vk fuel r (sf :: acc) err (if err then npre else npre + 1)
    | (none, r) => loop vk fuel r acc true npre

/-- `ExtraField::try_parse`: `err = false` is `Ok(ExtraField(fields))`, `err = true` is `Err(ExtraField(fields))` -/
def tryParse (vk : Bytes → Bool) (e : Bytes) : Parsed :=
  (loop vk e.length e [] false 0).getD ⟨true, [], []⟩

/-- `RawExtraField::try_parse`: the fields, whichever the flag -/
def rawTryParse (vk : Bytes → Bool) (e : Bytes) : List SubField := (tryParse vk e).fields

/-- `SubField::consensus_encode` (transaction.rs:872-919); the merge-mining size byte is recomputed as
`32 + len(varint depth)` in `u8` arithmetic -/
def encSub : SubField → Bytes
  | .padding n => 0x00 :: List.replicate n 0
  | .txPub k => 0x01 :: k
  | .nonce n => 0x02 :: (encVarint n.length ++ n)
  | .mergeMining d h => 0x03 :: UInt8.ofNat (32 + (encVarint d).length) :: (encVarint d ++ h)
  | .addKeys ks => 0x04 :: (encVarint ks.length ++ ks.flatten)
  | .minerGate d => 0xde :: (encVarint d.length ++ d)

/-- the buffer built by `Encodable for ExtraField` (tail recursive) -/
def encFieldsAux : List SubField → Bytes → Bytes
  | [], acc => acc.reverse
  | f :: fs, acc => encFieldsAux fs ((encSub f).reverseAux acc)
def encFields (fs : List SubField) : Bytes := encFieldsAux fs []

/-- `Encodable for ExtraField` (transaction.rs:809-818): the buffer written as a `Vec<u8>` -/
def encExtra (fs : List SubField) : Bytes := let buf := encFields fs; encVarint buf.length ++ buf

/-- `Vec<u8>` decode of a whole buffer as done by `deserialize::<RawExtraField>` (tail-recursive reading of the
elements: same function as `vec sizes.u8 u8` followed by the all-consumed check, see `rawDecode_eq`) -/
def rawDecode (b : Bytes) : Option Bytes :=
  match vecU8Rd b with
  | (some e, []) => some e
  | _ => none

/-- `From<ExtraField> for RawExtraField` (transaction.rs:417-421): `deserialize(&serialize(&extra)).unwrap()`;
`none` = the `unwrap` panics -/
def toRaw (fs : List SubField) : Option Bytes := rawDecode (encExtra fs)

/-- `ExtraField::tx_pubkey` (transaction.rs:302-308): `find_map` -/
def txPubkey : List SubField → Option Bytes
  | [] => none
  | .txPub k :: _ => some k
  | _ :: fs => txPubkey fs

/-- `ExtraField::tx_additional_pubkeys` (transaction.rs:310-316): `find_map` -/
def txAdditionalPubkeys : List SubField → Option (List Bytes)
  | [] => none
  | .addKeys ks :: _ => some ks
  | _ :: fs => txAdditionalPubkeys fs

end Monero.Extra
