import MoneroModel.Basic
import MoneroModel.Gen.Tables
/-! Model of `Network::{as_u8, from_u8}` (src/network.rs) and `AddressType::from_slice` (src/util/address.rs):
plain lookups in the tables regenerated from the source on every run. -/
namespace Monero
/-- `Network::as_u8` -/
def asU8 (n : Net) (k : Kind) : Option Nat := (Gen.asU8.find? fun e => e.1 = n ∧ e.2.1 = k).map (·.2.2)
/-- `Network::from_u8` -/
def fromU8 (b : Nat) : Option Net := (Gen.fromU8.find? fun e => e.1 = b).map (·.2)
/-- the arm of `AddressType::from_slice` selected by (network, first byte) -/
def addrArm (net : Net) (b : Nat) : Option (Kind × Nat × Nat × Nat) :=
  (Gen.addrType.find? fun e => e.1 = net ∧ e.2.1 = b).map (·.2.2)
/-- `AddressType::from_slice`: the address type and (for integrated addresses) the payment-id bytes -/
def addrTypeOf (net : Net) (bytes : Bytes) : Option (Kind × Bytes) :=
  match bytes with
  | [] => none   -- `bytes.is_empty()` is an error (Gen.addrTypeEmptyIsError; without the test `bytes[0]` would panic)
  | b :: _ =>
    match addrArm net b.toNat with
    | none => none
    | some (k, minLen, lo, hi) => if bytes.length < minLen then none else some (k, (bytes.drop lo).take (hi - lo))
end Monero
