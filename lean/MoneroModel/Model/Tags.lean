import MoneroModel.Basic
import MoneroModel.Gen.Tables
/-! Model of `Network::{as_u8, from_u8}` (src/network.rs) and `AddressType::from_slice` (src/util/address.rs):
plain lookups in the tables of `Gen/Tables.lean`, which are rewritten on every run from what the COMPILED functions of the
current source answer on their finite domains (harness/src/observe.rs: the 9 pairs and 6 payment ids, all 256 bytes, `from_slice`
on first byte × lengths 1..=160 × 5 content patterns, and on the empty blob). The SHAPE of the lookup — byte 0 selects the row,
one minimum length, one contiguous payment-id range — is the shape observe.rs imposes (anything else is an EXTRACT-FAIL). -/
namespace Monero
/-- `Network::as_u8` -/
def asU8 (n : Net) (k : Kind) : Option Nat := (Gen.asU8.find? fun e => e.1 = n ∧ e.2.1 = k).map (·.2.2)
/-- `Network::from_u8` -/
def fromU8 (b : Nat) : Option Net := (Gen.fromU8.find? fun e => e.1 = b).map (·.2)
/-- the arm of `AddressType::from_slice` selected by (network, first byte) -/
def addrArm (net : Net) (b : Nat) : Option (Kind × Nat × Nat × Nat) :=
  (Gen.addrType.find? fun e => e.1 = net ∧ e.2.1 = b).map (·.2.2)
/-- `AddressType::from_slice`: the address type and (for integrated addresses) the payment-id bytes -/
def addrTypeOf (net : Net) (bytes : Bytes) : Option (Kind × Bytes) :=
  match bytes with
  -- the empty blob: the OBSERVED answer (`Gen.addrTypeEmptyIsError` = "`from_slice(&[], n)` returned `Err`, without a panic, under
  -- all three networks"). Were the flag ever regenerated as `false`, the model would return a visibly wrong value here and
  -- `C20_type_lookup_empty` / `C20_type_total` would stop compiling.
  | [] => if Gen.addrTypeEmptyIsError then none else some (.Standard, [])
  | b :: _ =>
    match addrArm net b.toNat with
    | none => none
    | some (k, minLen, lo, hi) => if bytes.length < minLen then none else some (k, (bytes.drop lo).take (hi - lo))
/-- the observed flag as a rewrite rule: `simp [addrTypeOf]` closes the empty-blob case in files that do not import Props/C20
(Proofs/PanicsProofs). Fails to compile — visibly — if the flag is ever regenerated as `false`. -/
@[simp] theorem addrTypeEmptyIsError_true : Gen.addrTypeEmptyIsError = true := by decide
end Monero
