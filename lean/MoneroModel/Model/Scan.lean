import MoneroModel.Model.Crypto
import MoneroModel.Model.Extra
/-! Model of output scanning and amount recovery, control flow mirrored (HEAD of /repo, after the two fix commits):

* `TransactionPrefix::check_outputs_with` (src/blockdata/transaction.rs) as the iterator pipeline it is,
  `TransactionPrefix::check_outputs`, `Transaction::check_outputs`, `Transaction::check_outputs_with`,
  `TxOutTarget::{as_one_time_key, check_view_tag}`, `OwnedTxOut::{amount, blinding_factor, commitment}`;
* `SubKeyChecker::{new, check, check_with_key_generator}` (src/cryptonote/onetime_key.rs): the `HashMap<PublicKey, Index>` is
  the list of its `insert` calls, newest first, looked up by the compressed bytes (`PublicKey` is a `CompressedEdwardsY`;
  its `Eq`/`Hash` are those of the 32 bytes), i.e. last insert wins;
* `EcdhInfo::open_commitment`, `xor_amount`, `mask` (src/util/ringct.rs).

The primitives are the record `CryptoOps P` of Model/Crypto.lean. Two decoders appear in the Rust code and both in the model:
`ops.dec` = `PublicKey::from_slice` (accepted encodings only) and the extra parameter `decP` = dalek's permissive
`CompressedEdwardsY::decompress`, which is what the scan applies to the on-chain commitment and to the constant `H`.
`EdwardsPoint == EdwardsPoint` (projective equality = same group element) is modelled as equality of the compressed
encodings (`ops.enc`, injective for every lawful instance). Scalars are naturals below `ops.l`. Core Lean only. -/
namespace Monero.Scan
open Monero.Extra

variable {P : Type}

/-- the variants of `monero::Error` this code path can return -/
inductive ScanErr | noTxPublicKey | missingEcdhInfo | missingCommitment | invalidCommitment
  deriving DecidableEq, Repr

/-- `Opening`: amount (u64), blinding factor (scalar), commitment (compressed bytes of the recomputed point) -/
structure Opening where (amount : Nat) (mask : Nat) (commitment : Bytes)
  deriving DecidableEq, Repr

/-- `OwnedTxOut` -/
structure Owned where
  index : Nat
  out : TxOut
  sub : Nat × Nat
  txKey : Bytes
  opening : Option Opening

/-! ### SubKeyChecker -/

/-- the `table.insert(spend, index)` calls of `SubKeyChecker::new` in execution order: `major.for_each(|maj|
minor.clone().for_each(|min| …))` over the half-open `Range<u32>`s (empty when `hi ≤ lo`) -/
def inserts (ops : CryptoOps P) (v : Nat) (S : P) (majLo majHi minLo minHi : Nat) : List (Bytes × (Nat × Nat)) :=
  (List.range' majLo (majHi - majLo)).flatMap fun maj =>
    (List.range' minLo (minHi - minLo)).map fun min => (ops.enc (subSpendPub ops v S maj min), (maj, min))

/-- `HashMap::insert` on the association-list representation: newest entry in front -/
def tblInsert (t : List (Bytes × (Nat × Nat))) (e : Bytes × (Nat × Nat)) : List (Bytes × (Nat × Nat)) := e :: t
/-- `HashMap::get`: the newest entry with that key -/
def tblGet (t : List (Bytes × (Nat × Nat))) (k : Bytes) : Option (Nat × Nat) := t.lookup k

/-- `SubKeyChecker { table, keys }` with `keys = ViewPair { view: v, spend: S }` -/
structure Checker (P : Type) where
  table : List (Bytes × (Nat × Nat))
  v : Nat
  S : P

/-- `SubKeyChecker::new` -/
def Checker.new (ops : CryptoOps P) (v : Nat) (S : P) (majLo majHi minLo minHi : Nat) : Checker P :=
  ⟨(inserts ops v S majLo majHi minLo minHi).foldl tblInsert [], v, S⟩

/-- `SubKeyChecker::check_with_key_generator(keygen, index, key)` with `keygen.rv = D`:
`table.get(&(key - PublicKey::from_private_key(&keygen.get_rvn_scalar(index))))` -/
def Checker.checkWithKeyGenerator (ops : CryptoOps P) (ck : Checker P) (D : P) (index : Nat) (key : P) : Option (Nat × Nat) :=
  tblGet ck.table (ops.enc (ops.sub key (pubOf ops (rvnScalar ops D index))))

/-- `SubKeyChecker::check(index, key, tx_pubkey)` -/
def Checker.check (ops : CryptoOps P) (ck : Checker P) (index : Nat) (key : P) (txPub : P) : Option (Nat × Nat) :=
  ck.checkWithKeyGenerator ops (derive ops ck.v txPub) index key

/-! ### per-output matching -/

/-- `TxOutTarget::as_one_time_key`: `PublicKey::from_slice(key).ok()` for both variants -/
def asOneTimeKey (ops : CryptoOps P) : Target → Option P
  | .key k => ops.dec k
  | .tagged k _ => ops.dec k

/-- `TxOutTarget::check_view_tag(rv, index)`: an absent tag passes -/
def checkViewTag (ops : CryptoOps P) (t : Target) (D : P) (index : Nat) : Bool :=
  match t with
  | .tagged _ tag => tag == viewTagOf ops D index
  | .key _ => true

/-- the closure `check_key` of `check_outputs_with` for the candidate transaction key `K` (32 bytes taken from the parsed
extra; `ops.dec K` is the point of that `PublicKey`, always `some` for keys that came out of the extra parser because the
parser validates them with `PublicKey::from_slice`) -/
def checkKey (ops : CryptoOps P) (ck : Checker P) (out : TxOut) (i : Nat) (K : Bytes) : Option (Nat × (Nat × Nat) × Bytes) :=
  match asOneTimeKey ops out.target with
  | none => none
  | some key =>
    match ops.dec K with
    | none => none
    | some R =>
      let D := derive ops ck.v R                       -- KeyGenerator::from_key(checker.keys, pub_key).rv
      if !checkViewTag ops out.target D i then none else
      match ck.checkWithKeyGenerator ops D i key with
      | none => none
      | some idx => some (i, idx, K)

/-- `check_key(tx_pubkey).or_else(|| check_key(additional_key?))` -/
def matchOutput (ops : CryptoOps P) (ck : Checker P) (out : TxOut) (i : Nat) (R : Bytes) (add? : Option Bytes) :
    Option (Nat × (Nat × Nat) × Bytes) :=
  match checkKey ops ck out i R with
  | some r => some r
  | none =>
    match add? with
    | none => none
    | some a => checkKey ops ck out i a

/-! ### amount recovery -/

/-- dalek `Scalar - Scalar` on reduced scalars -/
def scalarSub (l a b : Nat) : Nat := (a + (l - b % l)) % l
/-- `Scalar::from_bytes_mod_order` -/
def scalarOfBytes (l : Nat) (b : Bytes) : Nat := leNat b % l

/-- `xor_amount(amount, shared_key)`: `u64::from_le_bytes(amount) ^ u64::from_le_bytes(Keccak("amount" ‖ k)[0..8])` (as the u64) -/
def xorAmount (ops : CryptoOps P) (amount8 : Bytes) (k : Nat) : Nat :=
  leNat amount8 ^^^ leNat ((ops.keccak (Gen.amountSalt ++ scalarBytes k)).take 8)

/-- `mask(scalar)`: Hs("commitment_mask" ‖ k) -/
def maskOf (ops : CryptoOps P) (k : Nat) : Nat := hsOf ops (Gen.maskSalt ++ scalarBytes k)

/-- the `(amount, blinding_factor)` computed by the `match self` of `open_commitment` from the shared scalar `k` -/
def ecdhDecode (ops : CryptoOps P) (e : Ecdh) (k : Nat) : Nat × Nat :=
  match e with
  | .std mask amount =>
    let s1 := hsOf ops (scalarBytes k)                  -- hash_to_scalar(shared_key.as_bytes())
    let s2 := hsOf ops (scalarBytes s1)                 -- hash_to_scalar(shared_sec1.as_bytes())
    let maskScalar := scalarSub ops.l (scalarOfBytes ops.l mask) s1
    let amountScalar := scalarSub ops.l (scalarOfBytes ops.l amount) s2
    (amountScalar % 2^64, maskScalar)                   -- low 8 bytes, little endian
  | .bp amount => (xorAmount ops amount k, maskOf ops k)

/-- `ED25519_BASEPOINT_POINT * blinding_factor + H.point.decompress().unwrap() * Scalar::from(amount)`;
`none` stands for the panic of the `unwrap` (never for the constant in `Gen.pointH`) -/
def commit (ops : CryptoOps P) (decP : Bytes → Option P) (mask amount : Nat) : Option P :=
  match decP Gen.pointH with
  | none => none
  | some H => some (ops.add (ops.smul mask ops.base) (ops.smul amount H))

/-- `EcdhInfo::open_commitment(view_pair, tx_pubkey, index, candidate_commitment)` with `R` the point of `tx_pubkey` -/
def openCommitment (ops : CryptoOps P) (decP : Bytes → Option P) (e : Ecdh) (v : Nat) (R : P) (index : Nat) (cand : P) :
    Option Opening :=
  let k := rvnScalar ops (derive ops v R) index         -- KeyGenerator::from_key(view_pair, *tx_pubkey).get_rvn_scalar(index)
  let (amount, mask) := ecdhDecode ops e k
  match commit ops decP mask amount with
  | none => none
  | some expected =>
    if ops.enc expected != ops.enc cand then none else
    some ⟨amount, mask, ops.enc expected⟩

/-- the `.map(|(i, out, sub_index, tx_pubkey)| { let opening = match rct_sig_base { … }; … })` stage: `Null` type or no
base ⇒ no opening; otherwise `ecdh_info.get(i)`, `out_pk.get(i)`, permissive decompression of the commitment, opening -/
def openStep (ops : CryptoOps P) (decP : Bytes → Option P) (v : Nat) (base : Option Base) (i : Nat) (K : Bytes) :
    Except ScanErr (Option Opening) :=
  match base with
  | none => .ok none
  | some b =>
    if b.ty = 0 then .ok none else
    match b.ecdh[i]? with
    | none => .error .missingEcdhInfo
    | some e =>
      match b.outPk[i]? with
      | none => .error .missingCommitment
      | some cb =>
        match decP cb with
        | none => .error .invalidCommitment
        | some cand =>
          match ops.dec K with
          | none => .error .invalidCommitment            -- unreachable: K passed `checkKey`
          | some R =>
            match openCommitment ops decP e v R i cand with
            | none => .error .invalidCommitment
            | some o => .ok (some o)

/-! ### the pipeline -/

/-- `outputs.iter().enumerate().zip(pubkeys_iter).filter_map(…).map(…).collect::<Result<Vec<_>, _>>()`: the iterator is
lazy, so the stages run output by output and the first `Err` ends the collection. `i` = position of the head of the
output list, `adds` = what is left of the additional-key iterator (then `None` forever). -/
def go (ops : CryptoOps P) (decP : Bytes → Option P) (ck : Checker P) (base : Option Base) (R : Bytes) :
    List TxOut → Nat → List Bytes → Except ScanErr (List Owned)
  | [], _, _ => .ok []
  | o :: os, i, adds =>
    match matchOutput ops ck o i R adds.head? with
    | none => go ops decP ck base R os (i+1) adds.tail
    | some (i', idx, K) =>
      match openStep ops decP ck.v base i' K with
      | .error e => .error e
      | .ok op =>
        match go ops decP ck base R os (i+1) adds.tail with
        | .error e => .error e
        | .ok rest => .ok (⟨i', o, idx, K, op⟩ :: rest)

/-- key validity used by the extra parser: `PublicKey::from_slice(..).is_ok()` -/
def validKey (ops : CryptoOps P) (b : Bytes) : Bool := (ops.dec b).isSome

/-- `TransactionPrefix::check_outputs_with(checker, rct_sig_base)` -/
def checkOutputsWith (ops : CryptoOps P) (decP : Bytes → Option P) (p : Prefix) (ck : Checker P) (base : Option Base) :
    Except ScanErr (List Owned) :=
  let fields := rawTryParse (validKey ops) p.extra      -- self.extra.try_parse()
  match txPubkey fields with
  | none => .error .noTxPublicKey
  | some R =>
    let adds := match txAdditionalPubkeys fields with | some ks => ks | none => []
    go ops decP ck base R p.outs 0 adds

/-- `TransactionPrefix::check_outputs(pair, major, minor, rct_sig_base)` -/
def checkOutputsPrefix (ops : CryptoOps P) (decP : Bytes → Option P) (p : Prefix) (v : Nat) (S : P)
    (majLo majHi minLo minHi : Nat) (base : Option Base) : Except ScanErr (List Owned) :=
  checkOutputsWith ops decP p (Checker.new ops v S majLo majHi minLo minHi) base

/-- `Transaction::check_outputs(pair, major, minor)`: `rct_signatures.sig.as_ref()` is `Tx.base` -/
def checkOutputsTx (ops : CryptoOps P) (decP : Bytes → Option P) (t : Tx) (v : Nat) (S : P)
    (majLo majHi minLo minHi : Nat) : Except ScanErr (List Owned) :=
  checkOutputsPrefix ops decP t.pre v S majLo majHi minLo minHi t.base

/-- `Transaction::check_outputs_with(checker)` -/
def checkOutputsTxWith (ops : CryptoOps P) (decP : Bytes → Option P) (t : Tx) (ck : Checker P) : Except ScanErr (List Owned) :=
  checkOutputsWith ops decP t.pre ck t.base

/-! ### OwnedTxOut accessors -/

/-- `OwnedTxOut::amount`: the opened amount, else the clear amount with `VarInt(0) ↦ None` -/
def Owned.amount (w : Owned) : Option Nat :=
  match w.opening with
  | some o => some o.amount
  | none => if w.out.amount = 0 then none else some w.out.amount
/-- `OwnedTxOut::blinding_factor` -/
def Owned.blindingFactor (w : Owned) : Option Nat := w.opening.map (·.mask)
/-- `OwnedTxOut::commitment` (compressed) -/
def Owned.commitment (w : Owned) : Option Bytes := w.opening.map (·.commitment)

end Monero.Scan
