import MoneroModel.Model.VarInt
import MoneroModel.Gen.Consts
import MoneroModel.Gen.Sizes
/-! Model of the transaction codec (encode.rs, transaction.rs, ringct.rs). -/
namespace Monero
def CAP : Nat := Gen.CAP
/-- size_of table of the current build (generated) -/
def sizes : Sizes := Gen.sizes

def rep {α} (d : Dec α) : Nat → Dec (List α)
  | 0 => pure' []
  | n+1 => bind d fun x => bind (rep d n) fun xs => pure' (x :: xs)
/-- sized vec with the allocation cap (encode.rs:507-524) -/
def sizedVec {α} (sz : Nat) (d : Dec α) (n : Nat) : Dec (List α) :=
  if n * sz > CAP then fail else rep d n
/-- Vec<T> (encode.rs:484-504) -/
def vec {α} (sz : Nat) (d : Dec α) : Dec (List α) := bind varint fun n => sizedVec sz d n

def key : Dec Bytes := takeN 32

inductive TxIn | gen (h : Nat) | toKey (amount : Nat) (offs : List Nat) (ki : Bytes)
inductive Target | key (k : Bytes) | tagged (k : Bytes) (t : UInt8)
structure TxOut where (amount : Nat) (target : Target)
structure Prefix where (version unlock : Nat) (ins : List TxIn) (outs : List TxOut) (extra : Bytes)
inductive Ecdh | std (mask amount : Bytes) | bp (amount : Bytes)
structure Base where (ty : Nat) (fee : Nat) (pseudo : List Bytes) (ecdh : List Ecdh) (outPk : List Bytes)
structure BP where (fixed : Bytes) (L R : List Bytes) (tail : Bytes)
structure BPP where (fixed : Bytes) (L R : List Bytes)
structure MG where (ss : List (List Bytes)) (cc : Bytes)
structure Clsag where (s : List Bytes) (c1 D : Bytes)
structure Prunable where (rangeSigs : List Bytes) (bps : List BP) (bpps : List BPP) (mgs : List MG) (clsags : List Clsag) (pseudo : List Bytes)
structure Tx where (pre : Prefix) (sigs : List (List Bytes)) (base : Option Base) (prun : Option Prunable)

def txin : Dec TxIn := bind u8 fun t =>
  if t = 0xff then bind varint fun h => pure' (.gen h)
  else if t = 2 then bind varint fun a => bind (vec sizes.varint varint) fun o => bind key fun k => pure' (.toKey a o k)
  else fail
def target : Dec Target := bind u8 fun t =>
  if t = 2 then bind key fun k => pure' (.key k)
  else if t = 3 then bind key fun k => bind u8 fun v => pure' (.tagged k v)
  else fail
def txout : Dec TxOut := bind varint fun a => bind target fun t => pure' ⟨a, t⟩
def prefix' : Dec Prefix :=
  bind varint fun v => bind varint fun u => bind (vec sizes.txin txin) fun i => bind (vec sizes.txout txout) fun o =>
  bind (vec sizes.u8 u8) fun e => pure' ⟨v, u, i, o, e⟩

def ecdh (ty : Nat) : Dec Ecdh :=
  if ty ≤ 3 then bind key fun m => bind key fun a => pure' (.std m a) else bind (takeN 8) fun a => pure' (.bp a)
/-- RctSigBase::consensus_decode (ringct.rs:528-575) -/
def base (inputs outputs : Nat) : Dec Base := bind u8 fun t =>
  let ty := t.toNat
  if ty > 6 then fail
  else if ty = 0 then pure' ⟨0, 0, [], [], []⟩
  else bind varint fun fee =>
    bind (if ty = 2 then sizedVec sizes.key key inputs else pure' []) fun ps =>
    bind (rep (ecdh ty) outputs) fun e =>          -- pushed one by one, no cap check
    bind (sizedVec sizes.key key outputs) fun pk => pure' ⟨ty, fee, ps, e, pk⟩

def bp : Dec BP := bind (takeN (32*6)) fun f => bind (vec sizes.key key) fun l => bind (vec sizes.key key) fun r => bind (takeN (32*3)) fun t => pure' ⟨f, l, r, t⟩
def bpp : Dec BPP := bind (takeN (32*6)) fun f => bind (vec sizes.key key) fun l => bind (vec sizes.key key) fun r => pure' ⟨f, l, r⟩
def u32le : Dec Nat := bind (takeN 4) fun b => pure' (b.foldr (fun x acc => x.toNat + 256 * acc) 0)

/-- section 1 of RctSigPrunable::consensus_decode: range proofs (ringct.rs:731-749) -/
def proofsDec (ty outputs : Nat) : Dec (List Bytes × List BP × List BPP) :=
  if ty = 4 ∨ ty = 5 then bind (vec sizes.bp bp) fun x => pure' ([], x, [])
  else if ty = 3 then bind u32le fun n => bind (sizedVec sizes.bp bp n) fun x => pure' ([], x, [])
  else if ty = 6 then bind u8 fun n => bind (sizedVec sizes.bpp bpp n.toNat) fun x => pure' ([], [], x)
  else bind (sizedVec sizes.rangesig (takeN 6176) outputs) fun x => pure' (x, [], [])

def clsagDec (mixin : Nat) : Dec Clsag :=
  bind (rep key (mixin+1)) fun s => bind key fun c1 => bind key fun d => pure' ⟨s, c1, d⟩
def mgDec (cols mixin : Nat) : Dec MG :=
  bind (rep (sizedVec sizes.key key cols) (mixin+1)) fun ss => bind key fun cc => pure' ⟨ss, cc⟩

/-- section 2: ring signatures (ringct.rs:751-784) -/
def sigsDec (ty inputs mixin : Nat) : Dec (List MG × List Clsag) :=
  if ty = 5 ∨ ty = 6 then bind (rep (clsagDec mixin) inputs) fun cs => pure' ([], cs)
  else
    let simple := ty = 2 ∨ ty = 3 ∨ ty = 4
    bind (rep (mgDec (if simple then 2 else 1 + inputs) mixin) (if simple then inputs else 1)) fun ms => pure' (ms, [])

/-- section 3: pseudo outs (ringct.rs:786-795) -/
def pseudoDec (ty inputs : Nat) : Dec (List Bytes) :=
  if ty ≥ 3 then sizedVec sizes.key key inputs else pure' []

/-- RctSigPrunable::consensus_decode (ringct.rs:712-807) -/
def prunable (ty inputs outputs mixin : Nat) : Dec (Option Prunable) :=
  if ty = 0 then pure' none else
  bind (proofsDec ty outputs) fun (rs, bps, bpps) =>
  bind (sigsDec ty inputs mixin) fun (ms, cs) =>
  bind (pseudoDec ty inputs) fun po =>
  pure' (some ⟨rs, bps, bpps, ms, cs, po⟩)

/-- Transaction::consensus_decode (transaction.rs:995-1077) -/
def tx : Dec Tx := bind prefix' fun p =>
  let inputs := p.ins.length
  let outputs := p.outs.length
  if p.version = 1 then
    let rings := p.ins.filterMap fun i => match i with | .toKey _ o _ => some o.length | _ => none
    let rec sigs : List Nat → Dec (List (List Bytes))
      | [] => pure' []
      | n :: t => bind (rep (takeN 64) n) fun s => bind (sigs t) fun ss => pure' (s :: ss)
    bind (sigs rings) fun s => pure' ⟨p, s, none, none⟩
  else if inputs = 0 then pure' ⟨p, [], none, none⟩
  else bind (base inputs outputs) fun b =>
    if b.ty ≠ 0 then
      match p.ins.head? with
      | some (.toKey _ o _) =>
        if o.length = 0 then fail
        else bind (prunable b.ty inputs outputs (o.length - 1)) fun pr => pure' ⟨p, [], some b, pr⟩
      | _ => bind (prunable b.ty inputs outputs 0) fun pr => pure' ⟨p, [], some b, pr⟩
    else pure' ⟨p, [], some b, none⟩

/- encoders (separately written, as in the Rust) -/
def encVec {α} (e : α → Bytes) (xs : List α) : Bytes := encVarint xs.length ++ (xs.map e).flatten
def encSized {α} (e : α → Bytes) (xs : List α) : Bytes := (xs.map e).flatten
def encTxIn : TxIn → Bytes
  | .gen h => 0xff :: encVarint h
  | .toKey a o k => 2 :: encVarint a ++ encVec encVarint o ++ k
def encTarget : Target → Bytes | .key k => 2 :: k | .tagged k t => 3 :: k ++ [t]
def encTxOut (o : TxOut) : Bytes := encVarint o.amount ++ encTarget o.target
def encPrefix (p : Prefix) : Bytes :=
  encVarint p.version ++ encVarint p.unlock ++ encVec encTxIn p.ins ++ encVec encTxOut p.outs ++ encVec (fun b => [b]) p.extra
def encEcdh : Ecdh → Bytes | .std m a => m ++ a | .bp a => a
def encBase (b : Base) : Bytes :=
  UInt8.ofNat b.ty :: (if b.ty = 0 then [] else
    encVarint b.fee ++ (if b.ty = 2 then encSized id b.pseudo else []) ++ encSized encEcdh b.ecdh ++ encSized id b.outPk)
def encBP (x : BP) : Bytes := x.fixed ++ encVec id x.L ++ encVec id x.R ++ x.tail
def encBPP (x : BPP) : Bytes := x.fixed ++ encVec id x.L ++ encVec id x.R
def leBytes (n k : Nat) : Bytes := (List.range k).map fun i => UInt8.ofNat ((n / 256^i) % 256)
def encProofs (rs : List Bytes) (bps : List BP) (bpps : List BPP) (ty : Nat) : Bytes :=
  if ty = 4 ∨ ty = 5 then encVec encBP bps
  else if ty = 3 then leBytes (bps.length % 2^32) 4 ++ encSized encBP bps
  else if ty = 6 then [UInt8.ofNat (bpps.length % 256)] ++ encSized encBPP bpps
  else encSized id rs
def encClsag (c : Clsag) : Bytes := encSized id c.s ++ c.c1 ++ c.D
def encMG (m : MG) : Bytes := encSized (encSized id) m.ss ++ m.cc
def encSigs (ms : List MG) (cs : List Clsag) (ty : Nat) : Bytes :=
  if ty = 5 ∨ ty = 6 then encSized encClsag cs else encSized encMG ms
def encPseudo (po : List Bytes) (ty : Nat) : Bytes := if ty ≥ 3 then encSized id po else []
def encPrunable (p : Prunable) (ty : Nat) : Bytes :=
  if ty = 0 then [] else
  encProofs p.rangeSigs p.bps p.bpps ty ++ encSigs p.mgs p.clsags ty ++ encPseudo p.pseudo ty
def encTx (t : Tx) : Bytes :=
  encPrefix t.pre ++
  (if t.pre.version = 1 then encSized (encSized id) t.sigs
   else match t.base with
     | none => []
     | some b => encBase b ++ (match t.prun with | none => [] | some p => encPrunable p b.ty))
end Monero
