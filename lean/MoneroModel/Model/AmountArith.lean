import MoneroModel.Gen.Amount
/-! Model of the arithmetic of `Amount` (u64) and `SignedAmount` (i64) in src/util/amount.rs. The *delegation
structure is generated*: which std method each `checked_*` calls, which checked method each operator `expect`s, which
operator each `*_assign` uses (`Gen.u_*`, `Gen.s_*`). Conversions and `positive_sub` are modelled by hand; the
translator verifies that their bodies still have the reviewed shape (`Gen.shape_*`). -/
namespace Monero
inductive Res | val (x : Int) | panic deriving DecidableEq, Repr

def tyOf (signed : Bool) : IntTy := if signed then TyI64 else TyU64
def genChecked (signed : Bool) : Arith → Option StdOp
  | .add => if signed then Gen.s_checked_add else Gen.u_checked_add
  | .sub => if signed then Gen.s_checked_sub else Gen.u_checked_sub
  | .mul => if signed then Gen.s_checked_mul else Gen.u_checked_mul
  | .div => if signed then Gen.s_checked_div else Gen.u_checked_div
  | .rem => if signed then Gen.s_checked_rem else Gen.u_checked_rem
def genOperator (signed : Bool) : Arith → Option Arith
  | .add => if signed then Gen.s_op_add else Gen.u_op_add
  | .sub => if signed then Gen.s_op_sub else Gen.u_op_sub
  | .mul => if signed then Gen.s_op_mul else Gen.u_op_mul
  | .div => if signed then Gen.s_op_div else Gen.u_op_div
  | .rem => if signed then Gen.s_op_rem else Gen.u_op_rem
def genAssign (signed : Bool) : Arith → Option Arith
  | .add => if signed then Gen.s_op_add_assign else Gen.u_op_add_assign
  | .sub => if signed then Gen.s_op_sub_assign else Gen.u_op_sub_assign
  | .mul => if signed then Gen.s_op_mul_assign else Gen.u_op_mul_assign
  | .div => if signed then Gen.s_op_div_assign else Gen.u_op_div_assign
  | .rem => if signed then Gen.s_op_rem_assign else Gen.u_op_rem_assign

/-- `x.checked_<op>(y)`; the outer `Option` is `none` only when the translator did not recognise the method -/
def amtChecked (signed : Bool) (op : Arith) (a b : Int) : Option (Option Int) :=
  (genChecked signed op).map fun m => m.eval (tyOf signed) a b
/-- `x <op> y`: `expect` on the checked method the operator names -/
def amtOperator (signed : Bool) (op : Arith) (a b : Int) : Option Res :=
  match genOperator signed op with
  | none => none
  | some c => (amtChecked signed c a b).map fun r => match r with | some v => .val v | none => .panic
/-- `x <op>= y`: `*self = *self <op'> other` -/
def amtAssign (signed : Bool) (op : Arith) (a b : Int) : Option Res :=
  match genAssign signed op with
  | none => none
  | some o => amtOperator signed o a b

/-- `Amount::to_signed` -/
def toSigned (a : Int) : Option Int := if a > TyI64.hi then none else some a
/-- `SignedAmount::to_unsigned` -/
def toUnsigned (a : Int) : Option Int := if a < 0 then none else some a
/-- `SignedAmount::positive_sub` -/
def positiveSub (a b : Int) : Option (Option Int) :=
  if a < 0 ∨ b < 0 ∨ b > a then some none else amtChecked true .sub a b

/-! Arithmetic of the same impl outside the list of the property statement (added; hand-modelled). -/
/-- `SignedAmount::checked_abs` (`self.0.checked_abs().map(SignedAmount)`): `None` exactly at `i64::MIN` -/
def checkedAbs (a : Int) : Option Int := TyI64.chk (a.natAbs : Int)
/-- `SignedAmount::abs` (`SignedAmount(self.0.abs())`, a plain `i64::abs`) AS COMPILED WITH OVERFLOW CHECKS (the harness
profile): panics at `i64::MIN`. In a build without overflow checks the same call returns `i64::MIN` (`absUnchecked`). -/
def absOp (a : Int) : Res := match checkedAbs a with | some v => .val v | none => .panic
/-- `i64::abs` without overflow checks: two's-complement wrap of `|a|` -/
def absUnchecked (a : Int) : Int := TyI64.wrap (a.natAbs : Int)
/-- `SignedAmount::signum` (`self.0.signum()`) -/
def signum (a : Int) : Int := if a > 0 then 1 else if a < 0 then -1 else 0
end Monero
