import MoneroModel.Gen.Amount
/-! Model of the arithmetic of `Amount` (u64) and `SignedAmount` (i64) in src/util/amount.rs. The *delegation
structure is generated*: which std method each `checked_*` calls, which checked method each operator `expect`s, which
operator each `*_assign` uses (`Gen.u_*`, `Gen.s_*`). Conversions, `positive_sub`, `checked_abs`, `abs` and `signum` are
modelled by hand (bodies quoted at the definitions). Their tie to the source is the differential run; the translator additionally
REPORTS whether each body still has the quoted token shape (`Gen.extracted_shape_*`, shown in the evidence) — no theorem rests on
that report, because a differently structured body is not a different behaviour. -/
namespace Monero
inductive Res | val (x : Int) | panic deriving DecidableEq, Repr

def tyOf (signed : Bool) : IntTy := if signed then TyI64 else TyU64
def genChecked (signed : Bool) : Arith → Option StdOp
  | .add => if signed then Gen.s_checked_add else Gen.u_checked_add
  | .sub => if signed then Gen.s_checked_sub else Gen.u_checked_sub
  | .mul => if signed then Gen.s_checked_mul else Gen.u_checked_mul
  | .div => if signed then Gen.s_checked_div else Gen.u_checked_div
  | .rem => if signed then Gen.s_checked_rem else Gen.u_checked_rem
def genOperator (signed : Bool) : Arith → Option Arith
  | .add => if signed then Gen.s_op_add else Gen.u_op_add
  | .sub => if signed then Gen.s_op_sub else Gen.u_op_sub
  | .mul => if signed then Gen.s_op_mul else Gen.u_op_mul
  | .div => if signed then Gen.s_op_div else Gen.u_op_div
  | .rem => if signed then Gen.s_op_rem else Gen.u_op_rem
def genAssign (signed : Bool) : Arith → Option Arith
  | .add => if signed then Gen.s_op_add_assign else Gen.u_op_add_assign
  | .sub => if signed then Gen.s_op_sub_assign else Gen.u_op_sub_assign
  | .mul => if signed then Gen.s_op_mul_assign else Gen.u_op_mul_assign
  | .div => if signed then Gen.s_op_div_assign else Gen.u_op_div_assign
  | .rem => if signed then Gen.s_op_rem_assign else Gen.u_op_rem_assign

/-- `x.checked_<op>(y)`; the outer `Option` is `none` only when the translator did not recognise the method -/
def amtChecked (signed : Bool) (op : Arith) (a b : Int) : Option (Option Int) :=
  (genChecked signed op).map fun m => m.eval (tyOf signed) a b
/-- `x <op> y`: `expect` on the checked method the operator names -/
def amtOperator (signed : Bool) (op : Arith) (a b : Int) : Option Res :=
  match genOperator signed op with
  | none => none
  | some c => (amtChecked signed c a b).map fun r => match r with | some v => .val v | none => .panic
/-- `x <op>= y`: `*self = *self <op'> other` -/
def amtAssign (signed : Bool) (op : Arith) (a b : Int) : Option Res :=
  match genAssign signed op with
  | none => none
  | some o => amtOperator signed o a b

/-- `Amount::to_signed` -/
def toSigned (a : Int) : Option Int := if a > TyI64.hi then none else some a
/-- `SignedAmount::to_unsigned` -/
def toUnsigned (a : Int) : Option Int := if a < 0 then none else some a
/-- `SignedAmount::positive_sub` -/
def positiveSub (a b : Int) : Option (Option Int) :=
  if a < 0 ∨ b < 0 ∨ b > a then some none else amtChecked true .sub a b

/-! Arithmetic of the same impl outside the list of the property statement (added; hand-modelled; the translator reports in
`Gen.extracted_shape_SignedAmount_{checked_abs,abs,signum}` whether the three bodies still read as quoted here). -/
/-- `SignedAmount::checked_abs` (`self.0.checked_abs().map(SignedAmount)`): `None` exactly at `i64::MIN` -/
def checkedAbs (a : Int) : Option Int := TyI64.chk (a.natAbs : Int)
/-- outcome of a std operation whose behaviour on overflow depends on the build profile: a value, or the panic that the COMPILER
inserts when the calling crate is built with overflow checks (`attempt to negate with overflow`) — not a panic of the library -/
inductive PlainRes | val (x : Int) | overflowPanic deriving DecidableEq, Repr
/-- `SignedAmount::abs` = `SignedAmount(self.0.abs())`: a PLAIN `i64::abs` (std: `if self.is_negative() { -self } else { self }`,
`#[rustc_inherit_overflow_checks]`), NOT derived from `checked_abs`. The negation overflows exactly at `i64::MIN`; what happens
there is decided by the profile the crate is compiled with: with overflow checks (`overflowChecks = true`; the harness profile and
Cargo's `dev` / `test` profiles) the compiler-inserted check panics; without them (Cargo's default `release` profile) the
two's-complement negation wraps and `abs` RETURNS `i64::MIN` — a negative "absolute value". -/
def absPlain (overflowChecks : Bool) (a : Int) : PlainRes :=
  if TyI64.fits (a.natAbs : Int) then .val (a.natAbs : Int)
  else if overflowChecks then .overflowPanic else .val (TyI64.wrap (a.natAbs : Int))
/-- `SignedAmount::signum` (`self.0.signum()`) -/
def signum (a : Int) : Int := if a > 0 then 1 else if a < 0 then -1 else 0
end Monero
