import MoneroModel.Model.Tags
import MoneroModel.Model.Tx
/-! Model of `Address` (src/util/address.rs) as it is written: `from_bytes`, `as_bytes`, `as_hex`, `hex::FromHex`,
`Display` / `FromStr` (through the `base58-monero` crate, modelled in `Monero.B58` below from its source, v2.1.0),
and the consensus codec (`Vec<u8>` blob, `Monero.vec sizes.u8 u8` of Model/Tx.lean).

The checksum hash `H` (Keccak-256 in the library) and the public-key acceptance test `validKey`
(`PublicKey::from_slice`, modelled for C13) are PARAMETERS: every theorem of C12 holds for every `H` and `validKey`;
the driver instantiates them with `Keccak.keccak256` and the Ed25519 decompress–recompress check.
Text (`&str`) is represented by its UTF-8 bytes. Core Lean only. -/
namespace Monero

/-! ## `base58-monero` 2.1.0 (`src/base58.rs`), control flow mirrored -/
namespace B58
/-- `BASE58_CHARS` -/
def BASE58_CHARS : List UInt8 :=
  ['1','2','3','4','5','6','7','8','9','A','B','C','D','E','F','G','H','J','K','L','M','N','P','Q','R','S','T','U',
   'V','W','X','Y','Z','a','b','c','d','e','f','g','h','i','j','k','m','n','o','p','q','r','s','t','u','v','w','x',
   'y','z'].map fun c => UInt8.ofNat c.toNat
/-- `ENCODED_BLOCK_SIZES` -/
def ENCODED_BLOCK_SIZES : List Nat := [0, 2, 3, 5, 6, 7, 9, 10, 11]
def FULL_BLOCK_SIZE : Nat := 8
def FULL_ENCODED_BLOCK_SIZE : Nat := 11

/-- `u8be_to_u64`: `res = res << 8 | b` (called with at most 8 bytes, so no bit leaves the `u64`) -/
def u8beToU64 (data : Bytes) : Nat := data.foldl (fun res b => (res <<< 8) ||| b.toNat) 0

/-- the `while i > 0` loop of `encode_block`: `acc` is the already written part `res[i..size]` -/
def encLoop : Nat → Nat → List UInt8 → List UInt8
  | 0, _, acc => acc
  | i + 1, num, acc => encLoop i (num / 58) (BASE58_CHARS.getD (num % 58) 0 :: acc)

/-- `encode_block`: the `[char; 11]` array, positions `size..11` keep the initial `'1'` -/
def encodeBlock (data : Bytes) : Option (List UInt8) :=
  if data.isEmpty || data.length > FULL_BLOCK_SIZE then none else
  let size := ENCODED_BLOCK_SIZES.getD data.length 0
  some (encLoop size (u8beToU64 data) [] ++ List.replicate (FULL_ENCODED_BLOCK_SIZE - size) (UInt8.ofNat '1'.toNat))

/-- `slice::chunks(n)` (n > 0) -/
def chunks (n : Nat) (data : Bytes) : List Bytes :=
  if data.length = 0 ∨ n = 0 then [] else data.take n :: chunks n (data.drop n)
termination_by data.length
decreasing_by simp only [List.length_drop]; omega

/-- `collect::<Result<Vec<_>>>()` -/
def collect {α} : List (Option α) → Option (List α)
  | [] => some []
  | none :: _ => none
  | some x :: r => match collect r with | none => none | some xs => some (x :: xs)

/-- the `for_each` of `encode` with its running block index `i` -/
def emit (fullBlockCount lastBlockSize : Nat) : Nat → List (List UInt8) → List UInt8
  | _, [] => []
  | i, v :: vs => (if i = fullBlockCount then v.take lastBlockSize else v) ++ emit fullBlockCount lastBlockSize (i + 1) vs

/-- `base58::encode` -/
def encode (data : Bytes) : Option (List UInt8) :=
  let lastBlockSize := ENCODED_BLOCK_SIZES.getD (data.length % FULL_BLOCK_SIZE) 0
  let fullBlockCount := data.length / FULL_BLOCK_SIZE
  match collect ((chunks FULL_BLOCK_SIZE data).map encodeBlock) with
  | none => none
  | some vs => some (emit fullBlockCount lastBlockSize 0 vs)

/-- `Iterator::position` -/
def position {α} (p : α → Bool) : List α → Option Nat
  | [] => none
  | x :: xs => if p x then some 0 else (position p xs).map (· + 1)

/-- the `try_for_each` over the reversed block: `(res, order)`; `order` is a `Wrapping<u128>` that cannot wrap
within 11 characters (58^11 < 2^128) -/
def accDigits : List UInt8 → Nat × Nat → Option (Nat × Nat)
  | [], s => some s
  | c :: cs, (res, order) =>
    match position (· == c) BASE58_CHARS with
    | some digit => accDigits cs (res + order * digit, order * 58)
    | none => none

/-- `u64::to_be_bytes` restricted to `k` low bytes (`k = 8` in the library) -/
def beBytes : Nat → Nat → Bytes
  | 0, _ => []
  | k + 1, n => beBytes k (n / 256) ++ [UInt8.ofNat (n % 256)]

/-- `decode_block`: `(data : [u8; 8], size)` -/
def decodeBlock (data : List UInt8) : Option (Bytes × Nat) :=
  if data.length > FULL_ENCODED_BLOCK_SIZE then none else
  match position (· == data.length) ENCODED_BLOCK_SIZES with
  | none => none
  | some resSize =>
    match accDigits data.reverse (0, 1) with
    | none => none
    | some (res, _) =>
      let max := if resSize = 8 then 2 ^ 64 else 1 <<< (resSize * 8)
      if res < max then some (beBytes 8 res, resSize) else none

/-- `base58::decode` on the bytes of the `&str` -/
def decode (s : List UInt8) : Option Bytes :=
  match collect ((chunks FULL_ENCODED_BLOCK_SIZE s).map decodeBlock) with
  | none => none
  | some blocks => some (blocks.map fun c => c.1.drop (FULL_BLOCK_SIZE - c.2)).flatten
end B58

/-! ## `hex` 0.4.3: `hex::encode`, `hex::decode` -/
namespace HexM
def HEX_CHARS_LOWER : List UInt8 := ['0','1','2','3','4','5','6','7','8','9','a','b','c','d','e','f'].map fun c => UInt8.ofNat c.toNat
/-- `hex::encode` -/
def encode : Bytes → List UInt8
  | [] => []
  | b :: r => HEX_CHARS_LOWER.getD (b.toNat >>> 4) 0 :: HEX_CHARS_LOWER.getD (b.toNat &&& 15) 0 :: encode r
/-- `val` -/
def val (c : UInt8) : Option Nat :=
  if 65 ≤ c.toNat ∧ c.toNat ≤ 70 then some (c.toNat - 65 + 10)
  else if 97 ≤ c.toNat ∧ c.toNat ≤ 102 then some (c.toNat - 97 + 10)
  else if 48 ≤ c.toNat ∧ c.toNat ≤ 57 then some (c.toNat - 48)
  else none
def pairs : List UInt8 → Option Bytes
  | a :: b :: t =>
    match val a, val b with
    | some x, some y => (match pairs t with | some r => some (UInt8.ofNat ((x <<< 4) ||| y) :: r) | none => none)
    | _, _ => none
  | _ => some []
/-- `Vec::<u8>::from_hex` = `hex::decode` -/
def decode (s : List UInt8) : Option Bytes := if s.length % 2 ≠ 0 then none else pairs s
end HexM

/-! ## `Address` -/
/-- `Address`; `AddressType::Integrated(PaymentId)` is `(kind = .Integrated, pid)`, `pid = []` for the other types -/
structure Address where
  net : Net
  kind : Kind
  pid : Bytes
  spend : Bytes
  view : Bytes
  deriving DecidableEq, Repr

namespace Address
variable (H : Bytes → Bytes) (validKey : Bytes → Bool)

/-- `Address::from_bytes` (address.rs:259-301) -/
def fromBytes (bytes : Bytes) : Option Address :=
  if bytes.isEmpty || bytes.length < 65 then none else
  match bytes with
  | [] => none
  | b0 :: _ =>
    match fromU8 b0.toNat with                                   -- Network::from_u8(bytes[0])?
    | none => none
    | some network =>
      match addrTypeOf network bytes with                        -- AddressType::from_slice(bytes, network)?
      | none => none
      | some (kind, pid) =>
        let publicSpend := (bytes.drop 1).take 32                -- PublicKey::from_slice(&bytes[1..33])
        if !validKey publicSpend then none else
        let publicView := (bytes.drop 33).take 32                -- PublicKey::from_slice(&bytes[33..65])
        if !validKey publicView then none else
        let split : Option (Bytes × Bytes) :=
          match kind with
          | .Integrated => if bytes.length != 77 then none else some (bytes.take 73, (bytes.drop 73).take 4)
          | _ => if bytes.length != 69 then none else some (bytes.take 65, (bytes.drop 65).take 4)
        match split with
        | none => none
        | some (checksumBytes, checksum) =>
          if (H checksumBytes).take 4 != checksum then none
          else some ⟨network, kind, pid, publicSpend, publicView⟩

/-- `Address::as_bytes` (address.rs:304-315) -/
def asBytes (a : Address) : Bytes :=
  let bytes := [UInt8.ofNat ((asU8 a.net a.kind).getD 0)] ++ a.spend ++ a.view
  let bytes := if a.kind = .Integrated then bytes ++ a.pid else bytes
  bytes ++ (H bytes).take 4

/-- `Display` -/
def toStr (a : Address) : Option (List UInt8) := B58.encode (asBytes H a)
/-- `FromStr` -/
def fromStr (s : List UInt8) : Option Address :=
  match B58.decode s with | none => none | some b => fromBytes H validKey b

/-- `as_hex` -/
def asHex (a : Address) : List UInt8 := HexM.encode (asBytes H a)
/-- `strip_prefix("0x").unwrap_or(hex)` -/
def stripPrefix0x : List UInt8 → List UInt8
  | 48 :: 120 :: t => t
  | s => s
/-- `hex::FromHex for Address` -/
def fromHex (s : List UInt8) : Option Address :=
  match HexM.decode (stripPrefix0x s) with | none => none | some b => fromBytes H validKey b

/-- `Decodable for Address`: a `Vec<u8>` then `from_bytes` -/
def consensusDecode : Dec Address :=
  bind (vec sizes.u8 u8) fun blob => fun rest =>
    match fromBytes H validKey blob with | none => none | some a => some (a, rest)
/-- `Encodable for Address`: `self.as_bytes().consensus_encode(w)` -/
def consensusEncode (a : Address) : Bytes := encVec (fun b => [b]) (asBytes H a)

/-- the addresses the constructors can build: 32-byte accepted keys, an 8-byte payment id exactly for integrated -/
def WF (a : Address) : Prop :=
  a.spend.length = 32 ∧ a.view.length = 32 ∧ validKey a.spend = true ∧ validKey a.view = true ∧
  (if a.kind = .Integrated then a.pid.length = 8 else a.pid = [])
end Address
end Monero
