import MoneroModel.Model.Tx
/-! Model of `BlockHeader` and `Block` codecs (src/blockdata/block.rs, `impl_consensus_encoding!`) and of the
fixed-width little-endian integer codecs (src/consensus/encode.rs `impl_int_encodable!`, endian.rs). -/
namespace Monero

/-- `uN::consensus_decode`: `read_exact` of k bytes, little endian -/
def uintLE (k : Nat) : Dec Nat := bind (takeN k) fun b => pure' (b.foldr (fun x acc => x.toNat + 256 * acc) 0)
def encUintLE (k n : Nat) : Bytes := leBytes n k

structure Header where (major minor timestamp : Nat) (prev : Bytes) (nonce : Nat)
structure Block where (hdr : Header) (miner : Tx) (hashes : List Bytes)

/-- `impl_consensus_encoding!(BlockHeader, major_version, minor_version, timestamp, prev_id, nonce)` -/
def header : Dec Header :=
  bind varint fun ma => bind varint fun mi => bind varint fun ts => bind key fun pv => bind (uintLE 4) fun n =>
  pure' ⟨ma, mi, ts, pv, n⟩
def encHeader (h : Header) : Bytes :=
  encVarint h.major ++ encVarint h.minor ++ encVarint h.timestamp ++ h.prev ++ encUintLE 4 h.nonce

/-- `impl_consensus_encoding!(Block, header, miner_tx, tx_hashes)`; `size_of::<Hash>() = 32` -/
def block : Dec Block :=
  bind header fun h => bind tx fun t => bind (vec sizes.key key) fun hs => pure' ⟨h, t, hs⟩
def encBlock (b : Block) : Bytes := encHeader b.hdr ++ encTx b.miner ++ encVec id b.hashes

/-- `Signature { c, r }` -/
def signature : Dec Bytes := takeN 64
/-- `Key64` = 64 keys -/
def key64 : Dec Bytes := takeN 2048
/-- `RangeSig { asig: BoroSig { s0: Key64, s1: Key64, ee: Key }, Ci: Key64 }` -/
def rangeSig : Dec Bytes := takeN 6176

/-- `String::consensus_decode`: a `Vec<u8>` (length-prefixed, capped) that must be valid UTF-8; `valid` is
`String::from_utf8(..).is_ok()` (a parameter of the model; the driver uses Lean's own UTF-8 validator) -/
def stringDec (valid : Bytes → Bool) : Dec Bytes :=
  bind (vec sizes.u8 u8) fun bs => if valid bs then pure' bs else fail
/-- `String::consensus_encode`: varint of the byte length, then the bytes -/
def encString (s : Bytes) : Bytes := encVarint s.length ++ s

/-- `RctType::consensus_decode` as a stand-alone codec (ringct.rs:659-674): one byte, accepted iff 0..6; the value is its number -/
def rctType : Dec Nat := bind u8 fun t => if t.toNat > 6 then fail else pure' t.toNat
/-- `RctType::consensus_encode` (ringct.rs:676-689): the variant's number as one byte -/
def encRctType (ty : Nat) : Bytes := [UInt8.ofNat ty]
/-- `bool::consensus_decode` = `read_i8 != 0` (encode.rs:233, 396): ANY non-zero byte is `true` — not a canonical codec; `bool`
is not reachable from Block / Transaction -/
def boolDec : Dec Bool := bind u8 fun b => pure' (b != 0)
/-- `emit_bool`: `v as u8` -/
def encBool (v : Bool) : Bytes := [if v then 1 else 0]
/-- `iN::consensus_decode` (`impl_int_encodable!`, endian.rs): k little-endian bytes read as two's complement -/
def intLE (k : Nat) : Dec Int := bind (uintLE k) fun n => pure' (if n < 256^k / 2 then (n : Int) else (n : Int) - ((256^k : Nat) : Int))
/-- `iN::consensus_encode`: the two's-complement residue, little endian -/
def encIntLE (k : Nat) (v : Int) : Bytes := leBytes (v % ((256^k : Nat) : Int)).toNat k
/-- `MultisigKlrki { K, L, R, ki }` (ringct.rs:160-171): four keys -/
def klrki : Dec Bytes := takeN 128

/-- strict decoding (`deserialize`): everything must be consumed -/
def strict {α} (d : Dec α) (b : Bytes) : Option α := match d b with | some (x, []) => some x | _ => none
end Monero
