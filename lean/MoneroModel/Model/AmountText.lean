import MoneroModel.Basic
import MoneroModel.Gen.Amount
/-! # Model of the amount text conversions of src/util/amount.rs (as they are)

`parse_signed_to_piconero` (118-192), `Amount::from_str_in` (277-286), `SignedAmount::from_str_in` (544-553),
`from_str_with_denomination` (291-300 / 559-568), `fmt_piconero_in` (195-230), `Amount::fmt_value_in`,
`SignedAmount::fmt_value_in` (596-606, incl. the `i64::MIN` path), `to_string_in`, `to_string_with_denomination`,
`Denomination::{precision, Display, FromStr}` (46-84; the three tables are GENERATED into `Gen.precision`,
`Gen.denomDisplay`, `Gen.denomFromStr` on every run and only looked up here).

Strings are their UTF-8 bytes (`List UInt8`). The Rust code iterates `s.chars()`; on a valid UTF-8 string
* `s.len()` is the byte length (so the cap of 50 is a byte cap — modelled as `s.length`),
* `starts_with('-')` / `'0'..='9'` / `'.'` / `' '` are ASCII, and every byte of a multi-byte character is ≥ 0x80, so a
  non-ASCII character is rejected as `InvalidCharacter` at its first byte exactly when the byte loop rejects that byte,
* `splitn(3, ' ')` splits at bytes 0x20 (0x20 never occurs inside a multi-byte character),
* in `is_too_precise` "the last `n` chars are all `'0'`" holds iff the last `n` bytes are all 0x30.
Hence the byte-level control flow below returns `Ok`/`Err` exactly as the char-level code does (the error *kind* may
differ only in which of two errors is met first, and kinds are not compared). Integers: `value : u64` is a `Nat` with the
two checked operations made explicit (`> U64MAX` ⇒ `TooBig`); the `i32` counters are small and modelled exactly. -/
namespace Monero.AmtText

inductive PErr
  | negative | tooBig | tooPrecise | invalidFormat | inputTooLarge | invalidChar | unknownDenom
  deriving Repr, DecidableEq

def U64MAX : Nat := 2^64 - 1
def I64MAX : Nat := 2^63 - 1
def isDigit (c : UInt8) : Bool := 0x30 ≤ c.toNat && c.toNat ≤ 0x39

/-- `Denomination::precision` — a lookup in the generated table -/
def precisionOf (d : Denom) : Int := (Gen.precision.lookup d).getD 0
/-- `Display for Denomination` — a lookup in the generated table -/
def displayOf (d : Denom) : Bytes := (Gen.denomDisplay.lookup d).getD []
/-- `FromStr for Denomination` — first matching arm of the generated table -/
def denomFromStr (s : Bytes) : Except PErr Denom :=
  match Gen.denomFromStr.lookup s with
  | some d => .ok d
  | none => .error .unknownDenom

/-- `is_too_precise(s, precision)`:
`s.contains('.') || precision >= s.len() || s.chars().rev().take(precision).any(|d| d != '0')` -/
def isTooPrecise (s : Bytes) (precision : Nat) : Bool :=
  s.contains 0x2e || decide (precision ≥ s.length) || (s.reverse.take precision).any (fun c => c != 0x30)

/-- the digit loop `for c in s.chars()`: checked `10*value + digit` FIRST, then the decimal counter bounded by
`max_decimals`; `'.'` sets the counter once; anything else is `InvalidCharacter` -/
def parseLoop : Bytes → Nat → Option Nat → Nat → Except PErr (Nat × Option Nat)
  | [], v, d, _ => .ok (v, d)
  | c :: cs, v, d, md =>
    if isDigit c then
      if 10 * v > U64MAX then .error .tooBig                                   -- 10_u64.checked_mul(value)
      else if 10 * v + (c.toNat - 0x30) > U64MAX then .error .tooBig          -- val.checked_add(digit)
      else
        match d with
        | none => parseLoop cs (10 * v + (c.toNat - 0x30)) none md
        | some k => if k < md then parseLoop cs (10 * v + (c.toNat - 0x30)) (some (k+1)) md else .error .tooPrecise
    else if c.toNat = 0x2e then
      match d with
      | none => parseLoop cs v (some 0) md
      | some _ => .error .invalidFormat
    else .error .invalidChar

/-- the final loop `for _ in 0..scale_factor { value = 10.checked_mul(value)? }` -/
def rescale : Nat → Nat → Except PErr Nat
  | 0, v => .ok v
  | n+1, v => if 10 * v > U64MAX then .error .tooBig else rescale n (10 * v)

/-- the `max_decimals` block: returns the (possibly shortened) string and `max_decimals` -/
def maxDecimals (s : Bytes) (d : Denom) : Except PErr (Bytes × Nat) :=
  let precisionDiff : Int := -(precisionOf d)
  if precisionDiff < 0 then
    let lastN := precisionDiff.natAbs
    if isTooPrecise s lastN then .error .tooPrecise
    else .ok (s.take (s.length - lastN), 0)
  else .ok (s, precisionDiff.toNat)

/-- `parse_signed_to_piconero` -/
def parseSignedToPiconero (s : Bytes) (d : Denom) : Except PErr (Bool × Nat) :=
  if s = [] then .error .invalidFormat
  else if s.length > 50 then .error .inputTooLarge
  else
    let neg := s.head? = some 0x2d
    if neg ∧ s.length = 1 then .error .invalidFormat
    else
      let s1 := if neg then s.tail else s
      match maxDecimals s1 d with
      | .error e => .error e
      | .ok (s2, md) =>
        match parseLoop s2 0 none md with
        | .error e => .error e
        | .ok (v, dec) =>
          match rescale (md - dec.getD 0) v with
          | .error e => .error e
          | .ok q => .ok (neg, q)

/-- `Amount::from_str_in` -/
def amountFromStrIn (s : Bytes) (d : Denom) : Except PErr Nat :=
  match parseSignedToPiconero s d with
  | .error e => .error e
  | .ok (neg, q) => if neg then .error .negative else if q > I64MAX then .error .tooBig else .ok q

/-- `SignedAmount::from_str_in` -/
def signedFromStrIn (s : Bytes) (d : Denom) : Except PErr Int :=
  match parseSignedToPiconero s d with
  | .error e => .error e
  | .ok (neg, q) => if q > I64MAX then .error .tooBig else .ok (if neg then -(q : Int) else q)

/-- both types behind one flag, results as integers -/
def fromStrIn (signed : Bool) (s : Bytes) (d : Denom) : Except PErr Int :=
  if signed then signedFromStrIn s d else (amountFromStrIn s d).map Int.ofNat

/-- one step of `splitn(_, ' ')`: the piece before the first space and, if there is a space, what follows it -/
def splitSpace : Bytes → Bytes × Option Bytes
  | [] => ([], none)
  | c :: cs => if c = 0x20 then ([], some cs) else
    let (a, r) := splitSpace cs
    (c :: a, r)

/-- `from_str_with_denomination` (= `FromStr`): `splitn(3, ' ')`; exactly two pieces; the denomination is parsed
before the amount -/
def fromStrWithDenomination (signed : Bool) (s : Bytes) : Except PErr Int :=
  match splitSpace s with
  | (_, none) => .error .invalidFormat               -- `split.next().ok_or(InvalidFormat)`
  | (amt, some r) =>
    match splitSpace r with
    | (_, some _) => .error .invalidFormat           -- a third piece exists
    | (den, none) =>
      match denomFromStr den with
      | .error e => .error e
      | .ok d => fromStrIn signed amt d

/-- what `format!("{}", n)` prints for an unsigned integer: decimal digits, most significant first -/
def digits (n : Nat) : Bytes :=
  if n < 10 then [UInt8.ofNat (0x30 + n)] else digits (n / 10) ++ [UInt8.ofNat (0x30 + n % 10)]
termination_by n
decreasing_by omega

/-- `format!("{:0width$}", n)`: left-pad with `'0'` to at least `width` -/
def padZero (width : Nat) (ds : Bytes) : Bytes := List.replicate (width - ds.length) 0x30 ++ ds

/-- `fmt_piconero_in` -/
def fmtPiconeroIn (piconero : Nat) (negative : Bool) (d : Denom) : Bytes :=
  let sign : Bytes := if negative then [0x2d] else []
  let precision := precisionOf d
  if precision > 0 then
    -- `write!(f, "{}{:0width$}", piconero, 0, width)`
    sign ++ digits piconero ++ padZero precision.toNat (digits 0)
  else if precision < 0 then
    let nb := precision.natAbs
    let real := padZero nb (digits piconero)
    if real.length = nb then sign ++ [0x30, 0x2e] ++ real.drop (real.length - nb)
    else sign ++ real.take (real.length - nb) ++ [0x2e] ++ real.drop (real.length - nb)
  else sign ++ digits piconero

/-- `Amount::fmt_value_in` / `to_string_in` (`a` is a u64) -/
def amountToStringIn (a : Nat) (d : Denom) : Bytes := fmtPiconeroIn a false d

/-- `SignedAmount::fmt_value_in` / `to_string_in` (`a` is an i64): `checked_abs`, and for `i64::MIN`
`u64::MAX - (a as u64) + 1`; sign from `is_negative` -/
def signedToStringIn (a : Int) (d : Denom) : Bytes :=
  let picos : Nat := if a = -(2^63 : Int) then U64MAX - (a % (2^64 : Int)).toNat + 1 else a.natAbs
  fmtPiconeroIn picos (decide (a < 0)) d

def toStringIn (signed : Bool) (a : Int) (d : Denom) : Bytes :=
  if signed then signedToStringIn a d else amountToStringIn a.toNat d

/-- `to_string_with_denomination`: value, one space, `Display` of the denomination -/
def toStringWithDenomination (signed : Bool) (a : Int) (d : Denom) : Bytes :=
  toStringIn signed a d ++ [0x20] ++ displayOf d

/-! ### The arithmetic sites as the source spells them (added)
`parseLoop` / `rescale` above write the two overflow tests as comparisons on `Nat`. The three definitions below evaluate instead
the std methods that the translator READS at the three arithmetic sites of `parse_signed_to_piconero` (`Gen.amtParseMul`,
`Gen.amtParseAdd`, `Gen.amtRescaleMul`, with `StdOp.eval` on u64); `C15_checked_steps` proves that they coincide with the
comparisons and `C15_loop_uses_gen_steps` / `C15_rescale_uses_gen_step` that one iteration of `parseLoop` / `rescale` IS the
corresponding step, so a `wrapping_mul` that the translator reads at a site makes a theorem fail (a site it cannot read falls back
to the reviewed method: see `C15_parser_constants`). `Gen.amtMaxLen` is the observed / literal value of the length test. -/
/-- one digit: `10_u64.<mul>(value)` then `.<add>(digit)`; `none` = `TooBig` (or an unrecognised site) -/
def genDigitStep (v dgt : Nat) : Option Int :=
  match Gen.amtParseMul, Gen.amtParseAdd with
  | some m, some a => (m.eval TyU64 10 (v : Int)).bind fun x => a.eval TyU64 x (dgt : Int)
  | _, _ => none
/-- one rescale step: `10_u64.<mul>(value)` -/
def genRescaleStep (v : Nat) : Option Int :=
  match Gen.amtRescaleMul with
  | some m => m.eval TyU64 10 (v : Int)
  | none => none

/-- `Display for Amount` / `Display for SignedAmount` (amount.rs 414-419, 729-734): `fmt_value_in(f, Denomination::Monero)`
then `write!(f, " {}", Denomination::Monero)` — the denomination is hard-wired, and the formatter `f` is used as a sink only: no
flag of the format spec (precision, width, fill, alignment, `+`, `#`, `0`) is consulted, so `{:.4}`, `{:>30}`, `{:030}`, `{:+}` print
what `{}` prints (by inspection of the two bodies; tied to the code by the harness ops `c15_display`, `c15_display_flags`) -/
def display (signed : Bool) (a : Int) : Bytes := toStringWithDenomination signed a .Monero

end Monero.AmtText
