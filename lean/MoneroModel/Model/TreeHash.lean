import MoneroModel.Model.VarInt
/-! Model of `tree_hash_cnt`, `hash_concat`, `tree_hash` (src/cryptonote/hash.rs:160-224) and of
`Block::tx_root`, `Block::serialize_header_and_root`, `Block::serialize_hashable`, `Block::id`
(src/blockdata/block.rs:93-141), control flow mirrored. `none` = the Rust code panics (assert, index out of bounds,
`usize` underflow). The hash function is a parameter `H : Bytes → Bytes` (Keccak-256 in the real code). Loops carry a
fuel argument that the callers set to a value the loop cannot exceed. Core Lean only. -/
namespace Monero
namespace TreeHash

/-- the loop of `tree_hash_cnt` (hash.rs:176-179): `while pow < count { pow <<= 1 }` on a 64-bit `usize`
(`<<` discards the bits shifted out) -/
def cntLoop : Nat → Nat → Nat → Nat
  | 0, pow, _ => pow
  | f+1, pow, count => if pow < count then cntLoop f (pow * 2 % 2^64) count else pow

/-- `tree_hash_cnt` (hash.rs:160-182) with its two asserts; `none` = assertion failure -/
def treeHashCnt (count : Nat) : Option Nat :=
  if ¬ (count ≥ 3) then none                -- assert!(count >= 3)
  else if ¬ (count ≤ 0x10000000) then none  -- assert!(count <= 0x10000000)
  else
    let pow := cntLoop 64 2 count           -- let mut pow = 2; while pow < count { pow <<= 1 }
    some (pow / 2)                          -- pow >> 1

/-- `hash_concat` (hash.rs:184-189) -/
def hashConcat (H : Bytes → Bytes) (a b : Bytes) : Bytes := H (a ++ b)

/-- first in-place loop (hash.rs:203-209):
`while j < cnt { hashes[j] = hash_concat(hashes[i], hashes[i + 1]); i += 2; j += 1 }`.
Returns the array and the final `i`; `none` = an index is out of bounds. -/
def phase1 {α : Type} (hc : α → α → α) : Nat → Array α → Nat → Nat → Nat → Option (Array α × Nat)
  | 0, hs, i, _, _ => some (hs, i)
  | f+1, hs, i, j, cnt =>
    if j < cnt then
      match hs[i]?, hs[i+1]? with
      | some a, some b =>
        if h : j < hs.size then phase1 hc f (hs.set j (hc a b) h) (i+2) (j+1) cnt else none
      | _, _ => none
    else some (hs, i)

/-- inner loop of the halving phase (hash.rs:214-216):
`for i in 0..cnt { hashes[i] = hash_concat(hashes[2 * i], hashes[2 * i + 1]) }`, started at `i` -/
def halve {α : Type} (hc : α → α → α) : Nat → Array α → Nat → Nat → Option (Array α)
  | 0, hs, _, _ => some hs
  | f+1, hs, i, cnt =>
    if i < cnt then
      match hs[2*i]?, hs[2*i+1]? with
      | some a, some b =>
        if h : i < hs.size then halve hc f (hs.set i (hc a b) h) (i+1) cnt else none
      | _, _ => none
    else some hs

/-- halving phase (hash.rs:212-217): `while cnt > 2 { cnt >>= 1; for i in 0..cnt { … } }` -/
def phase2 {α : Type} (hc : α → α → α) : Nat → Array α → Nat → Option (Array α)
  | 0, hs, _ => some hs
  | f+1, hs, cnt =>
    if cnt > 2 then
      match halve hc (cnt / 2) hs 0 (cnt / 2) with
      | some hs' => phase2 hc f hs' (cnt / 2)
      | none => none
    else some hs

/-- the `other =>` arm of `tree_hash` (hash.rs:196-222) for an arbitrary combining function -/
def treeHashMany {α : Type} (hc : α → α → α) (root : α) (extra : List α) : Option α :=
  let count := extra.length + 1
  match treeHashCnt count with
  | none => none
  | some cnt =>
    let hashes := (root :: extra).toArray          -- once(root).chain(extra).collect()
    if 2 * cnt < count then none else               -- usize underflow of `2 * cnt - count`
    let i0 := 2 * cnt - count
    match phase1 hc cnt hashes i0 i0 cnt with
    | none => none
    | some (hashes1, i) =>
      if i ≠ count then none else                   -- assert_eq!(i, count)
      match phase2 hc 64 hashes1 cnt with
      | none => none
      | some hashes2 =>
        match hashes2[0]?, hashes2[1]? with          -- hash_concat(hashes[0], hashes[1])
        | some a, some b => some (hc a b)
        | _, _ => none

/-- `tree_hash` (hash.rs:192-224); `none` = panic -/
def treeHash (H : Bytes → Bytes) (root : Bytes) (extra : List Bytes) : Option Bytes :=
  match extra.length with
  | 0 => some root
  | 1 => match extra[0]? with
         | some e => some (hashConcat H root e)
         | none => none
  | _ => treeHashMany (hashConcat H) root extra

/-- `Block::tx_root` (block.rs:103-108): tree hash of the miner-transaction hash followed by `tx_hashes` -/
def txRoot (H : Bytes → Bytes) (minerTxHash : Bytes) (txHashes : List Bytes) : Option Bytes :=
  treeHash H minerTxHash txHashes

/-- the blob built by `Block::serialize_header_and_root` (block.rs:112-120) from the serialised header, the root and
the number of listed transaction hashes: `header ‖ root ‖ varint(1 + n)` -/
def blobOf (hdr : Bytes) (root : Bytes) (nHashes : Nat) : Bytes := hdr ++ root ++ encVarint (nHashes + 1)

/-- the private `Block::serialize_header_and_root` (block.rs:112-120): serialised header, `self.tx_root()`, `varint(1 + len)` -/
def serializeHeaderAndRoot (H : Bytes → Bytes) (hdr minerTxHash : Bytes) (txHashes : List Bytes) : Option Bytes :=
  match txRoot H minerTxHash txHashes with
  | none => none
  | some root => some (blobOf hdr root txHashes.length)

/-- the public `Block::serialize_hashable` (block.rs:123-126): `self.serialize_header_and_root()` -/
def serializeHashable (H : Bytes → Bytes) (hdr minerTxHash : Bytes) (txHashes : List Bytes) : Option Bytes :=
  serializeHeaderAndRoot H hdr minerTxHash txHashes

/-- the tail of `Block::id` (block.rs:129-140) on the blob: `hash = H(varint(len blob) ‖ blob)`, then the block-202612
substitution. The two constants `CORRECT_BLOCK_ID_202612`, `EXISTING_BLOCK_ID_202612` are parameters. -/
def blockIdOf (H : Bytes → Bytes) (correct existing : Bytes) (blob : Bytes) : Bytes :=
  let out := encVarint blob.length ++ blob
  let hash := H out
  if hash = correct then existing else hash

/-- `Block::id` (block.rs:129-140); like the code it calls the private `serialize_header_and_root`, not the public wrapper -/
def blockId (H : Bytes → Bytes) (correct existing : Bytes) (hdr minerTxHash : Bytes) (txHashes : List Bytes) :
    Option Bytes :=
  match serializeHeaderAndRoot H hdr minerTxHash txHashes with
  | none => none
  | some blob => some (blockIdOf H correct existing blob)

end TreeHash
end Monero
