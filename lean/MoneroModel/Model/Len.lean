import MoneroModel.Model.Block
import MoneroModel.Model.Extra
/-! Model of the byte counts that the Rust encoders *report* (`consensus_encode` returns `Ok(len)`; each impl sums the
lengths its parts report: `len += x.consensus_encode(w)?`). Written separately from the encoders, as in the Rust, so
that "reported length = bytes written" is a theorem (`C02_len_*`), not a definition. -/
namespace Monero
def lenVarint (n : Nat) : Nat := (encVarintImp n).2
/-- `encode_sized_vec!`: `len += c.consensus_encode(w)?` over the elements -/
def lenSized {α} (l : α → Nat) (xs : List α) : Nat := xs.foldl (fun acc x => acc + l x) 0
/-- `[T]::consensus_encode`: varint of the length, then the elements -/
def lenVec {α} (l : α → Nat) (xs : List α) : Nat := xs.foldl (fun acc x => acc + l x) (lenVarint xs.length)
/-- `[u8; N]`: one per byte -/
def lenBytes (b : Bytes) : Nat := lenSized (fun _ => 1) b

def lenTxIn : TxIn → Nat
  | .gen h => 1 + lenVarint h
  | .toKey a o k => 1 + lenVarint a + lenVec lenVarint o + lenBytes k
def lenTarget : Target → Nat | .key k => 1 + lenBytes k | .tagged k _ => 1 + lenBytes k + 1
def lenTxOut (o : TxOut) : Nat := lenVarint o.amount + lenTarget o.target
def lenPrefix (p : Prefix) : Nat :=
  lenVarint p.version + lenVarint p.unlock + lenVec lenTxIn p.ins + lenVec lenTxOut p.outs + lenVec (fun _ => 1) p.extra
def lenEcdh : Ecdh → Nat | .std m a => lenBytes m + lenBytes a | .bp a => lenBytes a
def lenBase (b : Base) : Nat :=
  1 + (if b.ty = 0 then 0 else
    lenVarint b.fee + (if b.ty = 2 then lenSized lenBytes b.pseudo else 0) + lenSized lenEcdh b.ecdh + lenSized lenBytes b.outPk)
def lenBP (x : BP) : Nat := lenBytes x.fixed + lenVec lenBytes x.L + lenVec lenBytes x.R + lenBytes x.tail
def lenBPP (x : BPP) : Nat := lenBytes x.fixed + lenVec lenBytes x.L + lenVec lenBytes x.R
def lenProofs (rs : List Bytes) (bps : List BP) (bpps : List BPP) (ty : Nat) : Nat :=
  if ty = 4 ∨ ty = 5 then lenVec lenBP bps
  else if ty = 3 then 4 + lenSized lenBP bps
  else if ty = 6 then 1 + lenSized lenBPP bpps
  else lenSized lenBytes rs
def lenClsag (c : Clsag) : Nat := lenSized lenBytes c.s + lenBytes c.c1 + lenBytes c.D
def lenMG (m : MG) : Nat := lenSized (lenSized lenBytes) m.ss + lenBytes m.cc
def lenSigs (ms : List MG) (cs : List Clsag) (ty : Nat) : Nat :=
  if ty = 5 ∨ ty = 6 then lenSized lenClsag cs else lenSized lenMG ms
def lenPseudo (po : List Bytes) (ty : Nat) : Nat := if ty ≥ 3 then lenSized lenBytes po else 0
def lenPrunable (p : Prunable) (ty : Nat) : Nat :=
  if ty = 0 then 0 else lenProofs p.rangeSigs p.bps p.bpps ty + lenSigs p.mgs p.clsags ty + lenPseudo p.pseudo ty
def lenTx (t : Tx) : Nat :=
  lenPrefix t.pre +
  (if t.pre.version = 1 then lenSized (lenSized lenBytes) t.sigs
   else match t.base with
     | none => 0
     | some b => lenBase b + (match t.prun with | none => 0 | some p => lenPrunable p b.ty))
/-- `String`: `vi_len + b.len()` (byte length) -/
def lenString (s : Bytes) : Nat := lenVarint s.length + s.length
/-- `impl_int_encodable!` (encode.rs): `Ok(mem::size_of::<$ty>())` — the reported length of a fixed-width integer of k bytes
is k whatever the value; written separately from `encUintLE` / `encIntLE` (which produce the bytes) -/
def lenUint (k : Nat) : Nat := k
/-- `bool::consensus_encode`: `w.emit_bool(*self)?; Ok(1)` -/
def lenBool (_ : Bool) : Nat := 1
/-- `RctType::consensus_encode` (ringct.rs:676-689): every arm returns what `Nu8.consensus_encode(w)` reports -/
def lenRctType (_ : Nat) : Nat := lenUint 1
def lenHeader (h : Header) : Nat := lenVarint h.major + lenVarint h.minor + lenVarint h.timestamp + lenBytes h.prev + lenUint 4
def lenBlock (b : Block) : Nat := lenHeader b.hdr + lenTx b.miner + lenVec lenBytes b.hashes
end Monero

namespace Monero.Extra
/-- the `usize` returned by `SubField::consensus_encode` (transaction.rs:872-919), arm by arm: `len += tag.consensus_encode(w)?`
then what the payload reports (`Padding`: one per zero byte of the `for _ in 0..nbytes` loop; `PublicKey` / `Hash`: the `[u8; 32]`
array impl, one per byte; `Vec<u8>` / `Vec<PublicKey>`: varint of the count plus the elements; `MergeMining`: tag, the one size
byte, the depth varint, the hash). Written separately from `encSub` (which produces the bytes). -/
def lenSub : SubField → Nat
  | .padding n => (List.range n).foldl (fun len _ => len + lenUint 1) (lenUint 1)
  | .txPub k => lenUint 1 + lenBytes k
  | .nonce n => lenUint 1 + lenVec (fun _ => lenUint 1) n
  | .mergeMining d h => lenUint 1 + lenUint 1 + lenVarint d + lenBytes h
  | .addKeys ks => lenUint 1 + lenVec lenBytes ks
  | .minerGate d => lenUint 1 + lenVec (fun _ => lenUint 1) d
end Monero.Extra
