import MoneroModel.Basic
/-! Model of `VarInt` (src/consensus/encode.rs). -/
namespace Monero
/- VarInt (encode.rs:322-384) -/
def collect : Bytes → List Nat → Option (List Nat × Bytes)
  | [], _ => none
  | b :: bs, acc =>
    if b.toNat = 0 ∧ acc ≠ [] then none
    else if b.toNat < 128 then some (acc ++ [b.toNat % 128], bs)
    else collect bs (acc ++ [b.toNat % 128])
def accum : List Nat → Nat → Option Nat
  | [], int => some int
  | [last], int => some (int + last)
  | g :: g' :: rest, int => if int + g < 2^57 then accum (g' :: rest) ((int + g) * 128) else none
def varint : Dec Nat := fun b =>
  match collect b [] with
  | none => none
  | some (gs, rest) => match accum gs.reverse 0 with | none => none | some n => some (n, rest)
def encVarint (n : Nat) : Bytes :=
  if h : n < 128 then [UInt8.ofNat n] else UInt8.ofNat (n % 128 + 128) :: encVarint (n / 128)
termination_by n
decreasing_by omega


/-- the encoder's loop `bits = n & 0x7f; n >>= 7; push; until n == 0`: 7-bit groups, least significant first
(encode.rs:322-333) -/
def groups (n : Nat) : List Nat :=
  if h : n < 128 then [n] else (n % 128) :: groups (n / 128)
termination_by n
decreasing_by omega

/-- The encoder as written (encode.rs:319-349): `split_last`, continuation bit OR-ed onto all but the last group;
returns the bytes written and the `usize` it reports. -/
def encVarintImp (n : Nat) : Bytes × Nat :=
  let res := groups n
  match res.getLast? with
  | some last => (res.dropLast.map (fun g => UInt8.ofNat (g ||| 128)) ++ [UInt8.ofNat last], res.dropLast.length + 1)
  | none => ([0], 1)

/-! ### The decoder with what it reports on failure (added by the C14 audit round; `varint` above is unchanged and is
proved to be this function with the failure detail forgotten, `C14_varintE_refines`).
Rust: `r.read_u8()?` fails with `Error::Io(UnexpectedEof)` when the input is exhausted (nothing more is consumed);
the zero rule returns `ParseFailed("VarInt has a zero …")` right after reading the offending byte; the accumulation
loop returns `ParseFailed("VarInt overflows u64")` after ALL groups up to the terminator have been read. The `Nat`
is the reader position (bytes consumed) at the moment of the failure. -/
inductive VErr | eof | zero | overflow
deriving DecidableEq, Repr

def collectE : Bytes → List Nat → Nat → Except (VErr × Nat) (List Nat × Bytes)
  | [], _, pos => .error (.eof, pos)
  | b :: bs, acc, pos =>
    if b.toNat = 0 ∧ acc ≠ [] then .error (.zero, pos + 1)
    else if b.toNat < 128 then .ok (acc ++ [b.toNat % 128], bs)
    else collectE bs (acc ++ [b.toNat % 128]) (pos + 1)

def varintE (b : Bytes) : Except (VErr × Nat) (Nat × Bytes) :=
  match collectE b [] 0 with
  | .error e => .error e
  | .ok (gs, rest) =>
    match accum gs.reverse 0 with
    | none => .error (.overflow, b.length - rest.length)
    | some n => .ok (n, rest)

/-- `deserialize::<VarInt>` (encode.rs:84-95): `deserialize_partial`, then everything must have been consumed -/
def varintExact (b : Bytes) : Option Nat :=
  match varint b with
  | some (n, []) => some n
  | _ => none

end Monero
