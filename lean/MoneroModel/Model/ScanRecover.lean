import MoneroModel.Model.Scan
/-! Model of `OwnedTxOut::recover_key` (src/blockdata/transaction.rs:274-279), next to the scan model (Model/Scan.lean, which
this file only imports): which field of the owned output goes to which argument of `KeyRecoverer::{new, recover}`.
Core Lean only. -/
namespace Monero.Scan
variable {P : Type}

/-- `OwnedTxOut::recover_key(keys)` with `keys = KeyPair { view: v, spend: s }`:
`let recoverer = KeyRecoverer::new(keys, self.tx_pubkey); recoverer.recover(self.index, self.sub_index)`.
`self.tx_pubkey` is a `PublicKey` (32 compressed bytes, `Owned.txKey`); `KeyGenerator::from_key` takes its point
(`PublicKey::point()`, key.rs:316-320, which panics iff dalek's PERMISSIVE `decompress()` fails). `none` here means "the STRICT
decoder `ops.dec` (= `PublicKey::from_slice`, canonical encodings only) refuses the bytes": it OVER-approximates the panic — on
non-canonical but decompressible bytes Rust computes and the model says "panic". The two agree on every key accepted by
`from_slice`, and an `OwnedTxOut` has private fields and only ever holds such keys (the scan keeps keys validated by
`PublicKey::from_slice`), so on the outputs of a scan `= some x` is exact. -/
def Owned.recoverKey (ops : CryptoOps P) (w : Owned) (v s : Nat) : Option Nat :=
  match ops.dec w.txKey with
  | none => none
  | some R => some (Monero.recoverKey ops v s R w.index w.sub.1 w.sub.2)

/-- `KeyRecoverer` written as a two-step record: `new` computes `checker.rv` once, then any number of `recover` calls. NOTE: this is a
PURE record with exactly the fields (v, s, rv) — it cannot express hidden state (a memo, a scratch buffer) of the Rust object, so
`Recoverer.recover = recoverKey` (`rfl`, Proofs/ScanRecover.lean) says nothing about statelessness of `KeyRecoverer`; that rests on
the differential op `c09_recover_seq` (one object, many calls, repeated query) and on the purity re-check. -/
structure Recoverer (P : Type) where
  v : Nat
  s : Nat
  rv : P

/-- `KeyRecoverer::new(keys, tx_pubkey)` -/
def Recoverer.new (ops : CryptoOps P) (v s : Nat) (R : P) : Recoverer P := ⟨v, s, deriveReceiver ops v R⟩
/-- `KeyRecoverer::recover(oindex, aindex)` -/
def Recoverer.recover (ops : CryptoOps P) (k : Recoverer P) (oindex : Nat) (i j : Nat) : Nat :=
  let scal := rvnScalar ops k.rv oindex
  let s' := subSpendSec ops k.v k.s i j
  (scal + s') % ops.l
/-- several recoveries on ONE recoverer object, in order -/
def Recoverer.recoverAll (ops : CryptoOps P) (k : Recoverer P) (qs : List (Nat × Nat × Nat)) : List Nat :=
  qs.map fun q => k.recover ops q.1 q.2.1 q.2.2
end Monero.Scan
