import MoneroModel.Drv.Util
import MoneroModel.Drv.C20
import MoneroModel.Drv.CryptoRef
import MoneroModel.Model.Keys
import MoneroModel.Model.SubAddr
import MoneroModel.Model.ScanRecover
import MoneroModel.Spec.Sender
import MoneroModel.Spec.Address
import MoneroModel.Ref.Base58
open Monero
/-! Driver step of C09 / C10 / C11. Model side: the functions of Model/Crypto.lean and Model/SubAddr.lean instantiated with
`Drv.refOps` (reference curve + Keccak). Spec side: the by-the-book sender `Spec.Sender` instantiated with `refPrims`
(built directly from `Ed`/`Keccak`, not from `refOps`), scalar formulas written out here, `Spec.Address.text` for addresses.
Scalars and points travel as 32-byte hex; positions and indices in decimal.
NOTE on the `c11_*` arms: `refPrims` is definitionally `specPrims refOps`, so by `C11_keys_are_spec` the model and the spec column are
provably equal on every accepted input — the model-vs-spec comparison cannot fire there and is NOT independent evidence for C11. The
discriminating comparisons are Rust vs Lean and Rust vs the dalek formulas written in the harness (`dest_at`, `sub_scalar`,
`address_text`). -/
namespace Drv
namespace C10
/-- the reference primitives for the specification -/
def refPrims : Spec.Sender.Prims Ed.Pt :=
  { add := Ed.add, smul := Ed.smul, G := Ed.G, enc := Ed.encodePt, keccak := Keccak.keccak256, l := Ed.l }

/-- `PrivateKey::from_slice`: 32 bytes, canonical (value below l) -/
def scalarOf (h : String) : Option Nat :=
  let b := Hex.decode h
  if b.length = 32 ∧ Ed.leNat b < Ed.l then some (Ed.leNat b) else none
/-- model side: `PublicKey::from_slice` -/
def ptModel (h : String) : Option Ed.Pt := refOps.dec (Hex.decode h)
/-- spec side: strict RFC 8032 decoding -/
def ptSpec (h : String) : Option Ed.Pt := Ed.decodePt (Hex.decode h)
def u64Of (s : String) : Option Nat := match s.toNat? with | some n => if n < 2 ^ 64 then some n else none | none => none
def u32Of (s : String) : Option Nat := match s.toNat? with | some n => if n < 2 ^ 32 then some n else none | none => none
/-- `Option<Network>` -/
def netOptOf : String → Option (Option Net)
  | "None" => some none
  | s => (netOfStr s).map some

def showPt (o : Option Ed.Pt) : String := match o with | none => "err" | some P => Hex.encode (Ed.encodePt P)
def showSc (o : Option Nat) : String := match o with | none => "err" | some n => Hex.encode (Ed.toBytesLE n 32)
def show2 (o : Option (String × String)) : String := match o with | none => "err" | some (a, b) => a ++ " " ++ b
def encP (P : Ed.Pt) : String := Hex.encode (Ed.encodePt P)
def encS (n : Nat) : String := Hex.encode (Ed.toBytesLE n 32)
def H : Bytes → Bytes := Keccak.keccak256
/-- `<n> <i> <j>` triples of `c09_recover_seq` -/
def triplesOf : List String → Option (List (Nat × Nat × Nat))
  | [] => some []
  | n :: i :: j :: rest => do
    let n ← u64Of n; let i ← u32Of i; let j ← u32Of j
    let t ← triplesOf rest
    pure ((n, i, j) :: t)
  | _ => none
def showScs (o : Option (List Nat)) : String := match o with | none => "err" | some l => " ".intercalate (l.map encS)
def showBool (o : Option Bool) : String := match o with | none => "err" | some b => if b then "true" else "false"
/-- dalek's permissive `CompressedEdwardsY::decompress` on 32 bytes (what the scan applies to commitments) -/
def decPerm (b : Bytes) : Option Ed.Pt := if b.length = 32 then Keys.decompressDalek (Ed.leNat b) else none
/-- the 32 stored bytes of a `PublicKey` given as exactly 64 hex digits (`c10_derive_raw`) -/
def rawKeyOf (h : String) : Option Bytes :=
  let b := Hex.decode h
  if h.length = 64 ∧ b.length = 32 then some b else none
def scanErrName : Scan.ScanErr → String
  | .noTxPublicKey => "NoTxPublicKey"
  | .missingEcdhInfo => "MissingEcdhInfo"
  | .missingCommitment => "MissingCommitment"
  | .invalidCommitment => "InvalidCommitment"
/-- `Transaction::check_outputs` then `OwnedTxOut::recover_key` on every reported output, for a given recovery function -/
def showScanRecoverWith (recover : Scan.Owned → Option Nat) : Except Scan.ScanErr (List Scan.Owned) → String
  | .error e => "err " ++ scanErrName e
  | .ok ws => " ".intercalate (s!"ok {ws.length}" :: ws.map fun w =>
      match recover w with
      | some x => s!"{w.index}:{w.sub.1}/{w.sub.2}:{encS x}"
      | none => s!"{w.index}:{w.sub.1}/{w.sub.2}:PANIC")
/-- … with the model of `OwnedTxOut::recover_key` (`Scan.Owned.recoverKey`) on the reference instance -/
def showScanRecover (v s : Nat) : Except Scan.ScanErr (List Scan.Owned) → String :=
  showScanRecoverWith fun w => Scan.Owned.recoverKey refOps w v s
end C10
open C10 in
/-- Operations (all → `err` on both sides if an operand is not an accepted key / number):
`c10_derive <a> <B>` → point: `KeyGenerator::from_key((a, ·), B).rv`; model `derive refOps a B`, spec `8•(a•B)` as
  `mul8 (smul a B)` on the reference curve;
`c10_derive_sender <r> <V>` → point: `KeyGenerator::from_random(V, ·, r).rv`; same two sides;
`c10_onetime <r> <V> <S> <n>` → point: `from_random(V, S, r).one_time_key(n)`; spec: sender's output key for (V, S);
`c10_onetime_recv <v> <S> <R> <n>` → point: `from_key((v, S), R).one_time_key(n)`; spec: `derive_public_key(8vR, n, S)`;
`c10_derive_raw <a> <32 bytes>` → point | `PANIC`: `from_key` on `PublicKey { point: CompressedEdwardsY(bytes) }` (public field, no
  `from_slice`); model `deriveReceiverBytes refOps decPerm a bytes` — both `PublicKey::point()` calls with dalek's permissive
  decompression, `none` = the `expect` panics — so non-canonical encodings that decompress (`edff…ff7f`, `0100…0080`) are compared
  too; no spec side (the harness judges against dalek's `decompress` + `8a·B`);
`c09_recover <v> <s> <R> <n> <i> <j>` → scalar: `KeyRecoverer::new((v, s), R).recover(n, (i, j))`;
  spec: `Hs(8vR ‖ n) + s'` mod l;
`c11_sub_pub <v> <S> <i> <j>` → `<view> <spend>`: `get_public_keys`; spec: keys of `Spec.Sender.destAt`;
`c11_sub_sec <v> <s> <i> <j>` → `<view sec> <spend sec>`: `get_secret_keys`; spec: (v, s) at (0,0), else `(v·s', s')`;
`c09_scan_pre <v> <s> <majLo> <majHi> <minLo> <minHi> <prefix> <none|null>` → as `c09_scan_tx`, through `TransactionPrefix::check_outputs`
  WITHOUT RingCT data (`None`, or a base of type `Null`);
`c11_view_sec` / `c11_spend_sec <v> <s> <i> <j>` → scalar: `get_view_secret_key` / `get_spend_secret_key` called directly;
`c11_spend_pub <v> <S> <i> <j>` → point: `get_spend_public_key` called directly;
`c11_sub_addr <v> <S> <i> <j> <Mainnet|Testnet|Stagenet|None>` → address text (hex of UTF-8): `get_subaddress(..).to_string()`;
  spec: the subaddress-typed address text (`Spec.Address.text`, tag of the requested network, Mainnet for `None`) of the
  keys of `Spec.Sender.destAt` — (S', V') for (i,j) ≠ (0,0), the primary keys (S, V) at (0,0). This is the LETTER of C11
  ("the subaddress text is the subaddress-type address of those two keys"). OBSERVATION (DESIGN.md §8): Monero's wallet
  prints the Standard-typed primary address at (0,0) (`get_account_address_as_str(.., subaddress = !index.is_zero(), ..)`);
  `get_subaddress(.., Index{0,0}, ..)` of monero-rs returns a SubAddress-typed text of the primary keys instead. -/
def stepC10 : Step
  | ["c10_derive", a, b] =>
    some (showPt (do let a ← scalarOf a; let B ← ptModel b; pure (deriveReceiver refOps a B)),
          showPt (do let a ← scalarOf a; let B ← ptSpec b; pure (Spec.Sender.derivation refPrims a B)))
  | ["c10_derive_wire", a, b] =>
    -- the key arrives in consensus form: `Keys.publicConsensusDecode` (strict: exactly 32 bytes here), then the derivation
    some (showPt (do let a ← scalarOf a
                     let B ← (match Keys.publicConsensusDecode (Hex.decode b) with | some (k, []) => refOps.dec k | _ => none)
                     pure (deriveReceiver refOps a B)),
          showPt (do let a ← scalarOf a; let B ← ptSpec b; pure (Spec.Sender.derivation refPrims a B)))
  | ["c10_derive_sender", r, v] =>
    some (showPt (do let r ← scalarOf r; let V ← ptModel v; pure (deriveSender refOps r V)),
          showPt (do let r ← scalarOf r; let V ← ptSpec v; pure (Spec.Sender.derivation refPrims r V)))
  | ["c10_onetime", r, v, s, n] =>
    some (showPt (do let r ← scalarOf r; let V ← ptModel v; let S ← ptModel s; let n ← u64Of n
                     pure (oneTimeKey refOps (deriveSender refOps r V) S n)),
          showPt (do let r ← scalarOf r; let V ← ptSpec v; let S ← ptSpec s; let n ← u64Of n
                     pure (Spec.Sender.sendKey refPrims r ⟨V, S, false⟩ n)))
  | ["c10_onetime_recv", v, s, r, n] =>
    some (showPt (do let v ← scalarOf v; let S ← ptModel s; let R ← ptModel r; let n ← u64Of n
                     pure (oneTimeKey refOps (deriveReceiver refOps v R) S n)),
          showPt (do let v ← scalarOf v; let S ← ptSpec s; let R ← ptSpec r; let n ← u64Of n
                     pure (Spec.Sender.oneTimeKey refPrims (Spec.Sender.derivation refPrims v R) S n)))
  | ["c09_recover", v, s, r, n, i, j] =>
    some (showSc (do let v ← scalarOf v; let s ← scalarOf s; let R ← ptModel r; let n ← u64Of n
                     let i ← u32Of i; let j ← u32Of j
                     pure (recoverKey refOps v s R n i j)),
          showSc (do let v ← scalarOf v; let s ← scalarOf s; let R ← ptSpec r; let n ← u64Of n
                     let i ← u32Of i; let j ← u32Of j
                     let s' := if i = 0 ∧ j = 0 then s else Spec.Sender.subSpendSec refPrims v s i j
                     pure ((Spec.Sender.derivationScalar refPrims (Spec.Sender.derivation refPrims v R) n + s') % Ed.l)))
  | ["c11_sub_pub", v, s, i, j] =>
    some (show2 (do let v ← scalarOf v; let S ← ptModel s; let i ← u32Of i; let j ← u32Of j
                    let (view, spend) := subPublicKeys refOps v S i j
                    pure (encP view, encP spend)),
          show2 (do let v ← scalarOf v; let S ← ptSpec s; let i ← u32Of i; let j ← u32Of j
                    let d := Spec.Sender.destAt refPrims v S i j
                    pure (encP d.view, encP d.spend)))
  | ["c11_sub_sec", v, s, i, j] =>
    some (show2 (do let v ← scalarOf v; let s ← scalarOf s; let i ← u32Of i; let j ← u32Of j
                    pure (encS (subViewSec refOps v s i j), encS (subSpendSec refOps v s i j))),
          show2 (do let v ← scalarOf v; let s ← scalarOf s; let i ← u32Of i; let j ← u32Of j
                    pure (if i = 0 ∧ j = 0 then (encS v, encS s)
                          else (encS (Spec.Sender.subViewSec refPrims v s i j), encS (Spec.Sender.subSpendSec refPrims v s i j)))))
  | ["c11_sub_addr", v, s, i, j, net] =>
    some ((match (do let v ← scalarOf v; let S ← ptModel s; let i ← u32Of i; let j ← u32Of j; let net ← netOptOf net
                     pure (Address.toStr H (getSubaddress refOps v S i j net))) with
           | some (some t) => Hex.encode t
           | some none => "fmt-err"
           | none => "err"),
          (match (do let v ← scalarOf v; let S ← ptSpec s; let i ← u32Of i; let j ← u32Of j; let net ← netOptOf net
                     let d := Spec.Sender.destAt refPrims v S i j
                     pure (Spec.Address.text H (net.getD Net.Mainnet) Kind.SubAddress (Ed.encodePt d.spend) (Ed.encodePt d.view) [])) with
           | some t => Hex.encode t
           | none => "err"))
  | "c09_recover_seq" :: v :: s :: r :: rest =>
    -- ONE recoverer object (`Scan.Recoverer`, Model/ScanRecover.lean), all recoveries in order
    some (showScs (do let v ← scalarOf v; let s ← scalarOf s; let R ← ptModel r; let qs ← triplesOf rest
                      if qs.isEmpty then none else
                      pure ((Scan.Recoverer.new refOps v s R).recoverAll refOps qs)),
          showScs (do let v ← scalarOf v; let s ← scalarOf s; let R ← ptSpec r; let qs ← triplesOf rest
                      if qs.isEmpty then none else
                      pure (qs.map fun (n, i, j) =>
                        let s' := if i = 0 ∧ j = 0 then s else Spec.Sender.subSpendSec refPrims v s i j
                        (Spec.Sender.derivationScalar refPrims (Spec.Sender.derivation refPrims v R) n + s') % Ed.l)))
  | ["c10_check", v, s, r, n, key] =>
    some (showBool (do let v ← scalarOf v; let S ← ptModel s; let R ← ptModel r; let n ← u64Of n; let K ← ptModel key
                       pure (keyGenCheck refOps (deriveReceiver refOps v R) S n K)),
          showBool (do let v ← scalarOf v; let S ← ptSpec s; let R ← ptSpec r; let n ← u64Of n; let _ ← ptSpec key
                       pure (Ed.encodePt (Spec.Sender.oneTimeKey refPrims (Spec.Sender.derivation refPrims v R) S n)
                               == Hex.decode key)))
  | ["c10_subcheck", v, s, a, b, c, d, r, n, key] =>
    some ((match (do let v ← scalarOf v; let S ← ptModel s; let a ← u32Of a; let b ← u32Of b; let c ← u32Of c; let d ← u32Of d
                     let R ← ptModel r; let n ← u64Of n; let K ← ptModel key
                     pure ((Scan.Checker.new refOps v S a b c d).check refOps n K R)) with
           | none => "err" | some none => "none" | some (some (i, j)) => s!"{i}/{j}"), "-")
  | ["c09_scan_tx", v, s, a, b, c, d, h] =>
    some ((match (do let v ← scalarOf v; let s ← scalarOf s; let a ← u32Of a; let b ← u32Of b; let c ← u32Of c; let d ← u32Of d
                     match Monero.tx (Hex.decode h) with
                     | some (t, []) => pure (showScanRecover v s (Scan.checkOutputsTx refOps decPerm t v (refOps.smul s refOps.base) a b c d))
                     | _ => none) with
           | none => "err" | some r => r), "-")
  | ["c09_scan_pre", v, s, a, b, c, d, h, base] =>
    -- `TransactionPrefix::check_outputs(.., None | Some(&RctSigBase { rct_type: Null, .. }))` (no RingCT data), then `recover_key`
    some ((match (do let v ← scalarOf v; let s ← scalarOf s; let a ← u32Of a; let b ← u32Of b; let c ← u32Of c; let d ← u32Of d
                     let base : Option Base ← (if base == "none" then some none
                                               else if base == "null" then some (some ⟨0, 0, [], [], []⟩) else none)
                     match Monero.prefix' (Hex.decode h) with
                     | some (p, []) => pure (showScanRecover v s (Scan.checkOutputsPrefix refOps decPerm p v (refOps.smul s refOps.base) a b c d base))
                     | _ => none) with
           | none => "err" | some r => r), "-")
  | ["c11_view_sec", v, s, i, j] =>
    some (showSc (do let v ← scalarOf v; let s ← scalarOf s; let i ← u32Of i; let j ← u32Of j; pure (subViewSec refOps v s i j)),
          showSc (do let v ← scalarOf v; let s ← scalarOf s; let i ← u32Of i; let j ← u32Of j
                     pure (if i = 0 ∧ j = 0 then v else Spec.Sender.subViewSec refPrims v s i j)))
  | ["c11_spend_sec", v, s, i, j] =>
    some (showSc (do let v ← scalarOf v; let s ← scalarOf s; let i ← u32Of i; let j ← u32Of j; pure (subSpendSec refOps v s i j)),
          showSc (do let v ← scalarOf v; let s ← scalarOf s; let i ← u32Of i; let j ← u32Of j
                     pure (if i = 0 ∧ j = 0 then s else Spec.Sender.subSpendSec refPrims v s i j)))
  | ["c11_spend_pub", v, s, i, j] =>
    some (showPt (do let v ← scalarOf v; let S ← ptModel s; let i ← u32Of i; let j ← u32Of j; pure (subSpendPub refOps v S i j)),
          showPt (do let v ← scalarOf v; let S ← ptSpec s; let i ← u32Of i; let j ← u32Of j
                     pure (Spec.Sender.destAt refPrims v S i j).spend))
  | ["c10_rvn", v, r, n] =>
    some (showSc (do let v ← scalarOf v; let R ← ptModel r; let n ← u64Of n
                     pure (rvnScalar refOps (deriveReceiver refOps v R) n)),
          showSc (do let v ← scalarOf v; let R ← ptSpec r; let n ← u64Of n
                     pure (Spec.Sender.derivationScalar refPrims (Spec.Sender.derivation refPrims v R) n)))
  | ["c10_derive_raw", a, b] =>
    -- `from_key` on a `PublicKey` built through its public field: the byte-level constructor model with the PERMISSIVE decoder of
    -- `PublicKey::point()`; `err` = not a scalar / not 32 bytes of hex (no `PublicKey` value), `PANIC` = the `expect` of `point()`
    some ((match scalarOf a, rawKeyOf b with
           | some a, some w => (match deriveReceiverBytes refOps decPerm a w with | some rv => Hex.encode rv | none => "PANIC")
           | _, _ => "err"), "-")
  | ["c11_scalar", v, i, j] =>
    some (showSc (do let v ← scalarOf v; let i ← u32Of i; let j ← u32Of j; pure (subScalar refOps v i j)),
          showSc (do let v ← scalarOf v; let i ← u32Of i; let j ← u32Of j; pure (Spec.Sender.subScalar refPrims v i j)))
  | ["c11_sub_keys", v, s, i, j] =>
    some ((match (do let v ← scalarOf v; let s ← scalarOf s; let i ← u32Of i; let j ← u32Of j
                     let k := subSecretKeys refOps v s i j
                     pure [k.1, k.2, subViewSec refOps v s i j, subSpendSec refOps v s i j]) with
           | some l => " ".intercalate (l.map encS) | none => "err"),
          (match (do let v ← scalarOf v; let s ← scalarOf s; let i ← u32Of i; let j ← u32Of j
                     let (a, b) := if i = 0 ∧ j = 0 then (v, s)
                                   else (Spec.Sender.subViewSec refPrims v s i j, Spec.Sender.subSpendSec refPrims v s i j)
                     pure [a, b, a, b]) with
           | some l => " ".intercalate (l.map encS) | none => "err"))
  | _ => none
end Drv
