import MoneroModel.Drv.Util
import MoneroModel.Model.HashScalar
import MoneroModel.Spec.HashScalar
import MoneroModel.Ref.Keccak
import MoneroModel.Model.TxHash
open Monero
namespace Drv
/-- C17 operations.
`c17_keccak <hex msg>` → digest hex (no model side: the library wrapper has no logic; spec = reference Keccak-256);
`c17_hs <hex 32-byte digest>` → 32-byte little-endian scalar hex (model `HashScalar.hsBytes`, spec `Spec.HashScalar`);
`c17_hash_to_scalar <hex msg>` → scalar hex (model: `hashToScalar keccak256`; spec: reference Keccak then the spec reduction);
`c17_trait_hs <hex key>` / `c17_trait_hs_tx <hex tx>` → `Hashable::hash_to_scalar` (model `HashScalar.hashableToScalarBytes`);
`c17_hs_ctor <ctor> <hex digest>` → as `c17_hs` (the constructor of the `Hash` is irrelevant);
`c17_seq <order> <hex msg>` → one result per letter of `<order>`, each operation's OWN result whatever preceded it: the digest for
`n` (`Hash::new`), `k` (`keccak_256`), `p` / `x` (`Hashable::hash` of the public key with these bytes / of the transaction prefix with
this serialisation — both hash exactly these bytes), the scalar for `s` (`Hash::hash_to_scalar`), `a` (`Hash::new` then `as_scalar`),
`q` / `y` (`Hashable::hash_to_scalar`). The Lean functions are pure, so the order cannot matter here; it can in the library.
In `c17_trait_hs`, `c17_trait_hs_tx`, `c17_seq` the DIGEST on the spec side is computed by the same reference Keccak as on the model
side (and `txHash` / `prefixHash` / `encBase` are the model's on both sides): the spec side is independent for the reduction only. -/
def stepC17 : Step
  | ["c17_keccak", h] => some ("-", Hex.encode (Keccak.keccak256 (Hex.decode h)))
  | ["c17_hs", h] =>
    let d := Hex.decode h
    if d.length != 32 then some ("err", "err") else
    some (Hex.encode (HashScalar.hsBytes d), Hex.encode (Spec.HashScalar.scalarOfDigest d))
  | ["c17_trait_hs", h] =>
    -- `Hashable::hash_to_scalar` (provided method) on a PublicKey: hash = Keccak(key bytes); scalar = LE(hash) mod l
    let k := Hex.decode h
    let d := Keccak.keccak256 k
    some (s!"{Hex.encode (HashScalar.hashNew k)} {Hex.encode (HashScalar.hashableToScalarBytes HashScalar.hashNew k)}", s!"{Hex.encode d} {Hex.encode (Spec.HashScalar.scalarOfDigest d)}")
  | ["c17_trait_hs_tx", h] =>
    -- the provided method on `Transaction`, `TransactionPrefix`, `RctSigBase`: model = `hashableToScalarBytes` over the modelled
    -- `hash()` of each type (Model/TxHash, whose agreement with the library is C05's subject); spec = the independent reduction
    -- applied to the same digests
    match Monero.tx (Hex.decode h) with
    | some (t, []) =>
      let K := Keccak.keccak256
      let line (f : Bytes → Bytes) : String :=
        let dt := txHash K t; let dp := prefixHash K t.pre
        let sb := match t.base with
          | some b => let db := K (encBase b); s!"{Hex.encode db} {Hex.encode (f db)}"
          | none => "- -"
        s!"ok {Hex.encode dt} {Hex.encode (f dt)} {Hex.encode dp} {Hex.encode (f dp)} {sb}"
      let m :=
        let sb := match t.base with
          | some b => s!"{Hex.encode (K (encBase b))} {Hex.encode (HashScalar.hashableToScalarBytes (fun b => K (encBase b)) b)}"
          | none => "- -"
        s!"ok {Hex.encode (txHash K t)} {Hex.encode (HashScalar.hashableToScalarBytes (txHash K) t)} {Hex.encode (prefixHash K t.pre)} {Hex.encode (HashScalar.hashableToScalarBytes (prefixHash K) t.pre)} {sb}"
      some (m, line Spec.HashScalar.scalarOfDigest)
    | _ => some ("err", "err")
  | ["c17_hs_ctor", _, h] =>
    -- `as_scalar` does not depend on how the `Hash` value was constructed
    let d := Hex.decode h
    if d.length != 32 then some ("err", "err") else
    some (Hex.encode (HashScalar.hsBytes d), Hex.encode (Spec.HashScalar.scalarOfDigest d))
  | ["c17_seq", order, h] =>
    let m := Hex.decode h
    let model (c : Char) : String :=
      if c == 's' then Hex.encode (HashScalar.hashToScalarBytes HashScalar.hashNew m)
      else if c == 'a' then Hex.encode (HashScalar.hsBytes (HashScalar.hashNew m))
      else if c == 'q' || c == 'y' then Hex.encode (HashScalar.hashableToScalarBytes HashScalar.hashNew m)
      else if c == 'n' || c == 'k' || c == 'p' || c == 'x' then Hex.encode (HashScalar.hashNew m)
      else "bad-op"
    let d := Keccak.keccak256 m
    let spec (c : Char) : String :=
      if c == 's' || c == 'a' || c == 'q' || c == 'y' then Hex.encode (Spec.HashScalar.scalarOfDigest d)
      else if c == 'n' || c == 'k' || c == 'p' || c == 'x' then Hex.encode d
      else "bad-op"
    some (" ".intercalate (order.toList.map model), " ".intercalate (order.toList.map spec))
  | ["c17_hash_to_scalar", h] =>
    let m := Hex.decode h
    some (Hex.encode (HashScalar.hashToScalarBytes HashScalar.hashNew m),
          Hex.encode (Spec.HashScalar.scalarOfDigest (Keccak.keccak256 m)))
  | _ => none
end Drv
