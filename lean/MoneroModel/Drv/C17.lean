import MoneroModel.Drv.Util
import MoneroModel.Model.HashScalar
import MoneroModel.Spec.HashScalar
import MoneroModel.Ref.Keccak
open Monero
namespace Drv
/-- C17 operations.
`c17_keccak <hex msg>` → digest hex (no model side: the library wrapper has no logic; spec = reference Keccak-256);
`c17_hs <hex 32-byte digest>` → 32-byte little-endian scalar hex (model `HashScalar.hsBytes`, spec `Spec.HashScalar`);
`c17_hash_to_scalar <hex msg>` → scalar hex (model: `hashToScalar keccak256`; spec: reference Keccak then the spec reduction). -/
def stepC17 : Step
  | ["c17_keccak", h] => some ("-", Hex.encode (Keccak.keccak256 (Hex.decode h)))
  | ["c17_hs", h] =>
    let d := Hex.decode h
    if d.length != 32 then some ("err", "err") else
    some (Hex.encode (HashScalar.hsBytes d), Hex.encode (Spec.HashScalar.scalarOfDigest d))
  | ["c17_trait_hs", h] =>
    -- `Hashable::hash_to_scalar` (provided method) on a PublicKey: hash = Keccak(key bytes); scalar = LE(hash) mod l
    let k := Hex.decode h
    let d := Keccak.keccak256 k
    some (s!"{Hex.encode d} {Hex.encode (HashScalar.hsBytes d)}", s!"{Hex.encode d} {Hex.encode (Spec.HashScalar.scalarOfDigest d)}")
  | ["c17_hash_to_scalar", h] =>
    let m := Hex.decode h
    some (Hex.encode (HashScalar.hashToScalarBytes HashScalar.hashNew m),
          Hex.encode (Spec.HashScalar.scalarOfDigest (Keccak.keccak256 m)))
  | _ => none
end Drv
