import MoneroModel.Drv.Util
import MoneroModel.Model.Build
import MoneroModel.Model.TxHash
import MoneroModel.Ref.Keccak
import MoneroModel.Spec.TxSkip
open Monero
/-! Driver for C03 (wire layout vs description) and C05 (transaction identifiers).
Description token grammar: see DESIGN.md Appendix C / harness `src/desc.rs` (every list is `<count> item…`). -/
/- structural equality of parsed values (the library's re-parse flag is `deserialize(serialize x) == x` on the structs) -/
deriving instance BEq for Monero.TxIn
deriving instance BEq for Monero.Target
deriving instance BEq for Monero.TxOut
deriving instance BEq for Monero.Prefix
deriving instance BEq for Monero.Ecdh
deriving instance BEq for Monero.Base
deriving instance BEq for Monero.BP
deriving instance BEq for Monero.BPP
deriving instance BEq for Monero.MG
deriving instance BEq for Monero.Clsag
deriving instance BEq for Monero.Prunable
deriving instance BEq for Monero.Tx
deriving instance BEq for Monero.Header
deriving instance BEq for Monero.Block

namespace Drv
namespace C03
abbrev P (α : Type) := List String → Option (α × List String)
@[inline] def pbind {α β} (p : P α) (f : α → P β) : P β := fun ts => match p ts with | none => none | some (x, r) => f x r
@[inline] def ppure {α} (x : α) : P α := fun ts => some (x, ts)
def tok : P String | [] => none | t :: r => some (t, r)
def nat : P Nat := pbind tok fun t => match t.toNat? with | some n => ppure n | none => fun _ => none
def hex : P Bytes := pbind tok fun t => ppure (Hex.decode t)
def rep {α} (p : P α) : Nat → P (List α)
  | 0 => ppure []
  | n + 1 => pbind p fun x => pbind (rep p n) fun xs => ppure (x :: xs)
def list {α} (p : P α) : P (List α) := pbind nat fun n => rep p n
def chunk32 (b : Bytes) : List Bytes := (List.range (b.length / 32)).map fun i => (b.drop (32 * i)).take 32

open Spec in
def inD : P InD := pbind tok fun t =>
  if t == "g" then pbind nat fun h => ppure (.gen h)
  else if t == "k" then pbind nat fun a => pbind (list nat) fun o => pbind hex fun k => ppure (.key a o k)
  else fun _ => none
open Spec in
def outD : P OutD := pbind nat fun a => pbind hex fun k => pbind tok fun t =>
  ppure ⟨a, k, if t == "-" then none else some (UInt8.ofNat (t.toNat?.getD 0))⟩
open Spec in
def bpD : P BpD := pbind hex fun A => pbind hex fun S => pbind hex fun T1 => pbind hex fun T2 => pbind hex fun taux => pbind hex fun mu =>
  pbind (list hex) fun L => pbind (list hex) fun R => pbind hex fun a => pbind hex fun b => pbind hex fun t => ppure ⟨A, S, T1, T2, taux, mu, L, R, a, b, t⟩
open Spec in
def bppD : P BppD := pbind hex fun A => pbind hex fun A1 => pbind hex fun Bk => pbind hex fun r1 => pbind hex fun s1 => pbind hex fun d1 =>
  pbind (list hex) fun L => pbind (list hex) fun R => ppure ⟨A, A1, Bk, r1, s1, d1, L, R⟩
open Spec in
def rsD : P RangeSigD := pbind hex fun s0 => pbind hex fun s1 => pbind hex fun ee => pbind hex fun ci => ppure ⟨chunk32 s0, chunk32 s1, ee, chunk32 ci⟩
open Spec in
def mgD : P MgD := pbind nat fun rows => pbind nat fun cols => pbind (rep (rep hex cols) rows) fun ss => pbind hex fun cc => ppure ⟨ss, cc⟩
open Spec in
def clD : P ClsagD := pbind (list hex) fun s => pbind hex fun c1 => pbind hex fun d => ppure ⟨s, c1, d⟩
def pairD : P (Bytes × Bytes) := pbind hex fun a => pbind hex fun b => ppure (a, b)
open Spec in
def rctD : P RctD := pbind nat fun ty =>
  if ty = 0 then ppure .null else pbind nat fun fee =>
  if ty = 1 then pbind (list pairD) fun e => pbind (list hex) fun pk => pbind (list rsD) fun rs => pbind mgD fun mg => ppure (.full fee e pk rs mg)
  else if ty = 2 then pbind (list hex) fun po => pbind (list pairD) fun e => pbind (list hex) fun pk => pbind (list rsD) fun rs => pbind (list mgD) fun mgs => ppure (.simple fee po e pk rs mgs)
  else if ty = 3 then pbind (list pairD) fun e => pbind (list hex) fun pk => pbind (list bpD) fun bps => pbind (list mgD) fun mgs => pbind (list hex) fun po => ppure (.bulletproof fee e pk bps mgs po)
  else if ty = 4 then pbind (list hex) fun e => pbind (list hex) fun pk => pbind (list bpD) fun bps => pbind (list mgD) fun mgs => pbind (list hex) fun po => ppure (.bulletproof2 fee e pk bps mgs po)
  else if ty = 5 then pbind (list hex) fun e => pbind (list hex) fun pk => pbind (list bpD) fun bps => pbind (list clD) fun cls => pbind (list hex) fun po => ppure (.clsag fee e pk bps cls po)
  else if ty = 6 then pbind (list hex) fun e => pbind (list hex) fun pk => pbind (list bppD) fun bpps => pbind (list clD) fun cls => pbind (list hex) fun po => ppure (.bpplus fee e pk bpps cls po)
  else fun _ => none
open Spec in
def bodyD : P BodyD := pbind tok fun t =>
  if t == "v1" then pbind (list (list pairD)) fun s => ppure (.v1 s)
  else if t == "v2n" then ppure (.v2 none)
  else if t == "v2" then pbind rctD fun r => ppure (.v2 (some r))
  else fun _ => none
open Spec in
def txD : P TxD := pbind nat fun u => pbind (list inD) fun i => pbind (list outD) fun o => pbind hex fun e => pbind bodyD fun b => ppure ⟨u, i, o, e, b⟩
open Spec in
def blockD : P BlockD := pbind nat fun ma => pbind nat fun mi => pbind nat fun ts => pbind hex fun pv => pbind nat fun nonce =>
  pbind (list hex) fun hs => pbind txD fun t => ppure ⟨⟨ma, mi, ts, pv, nonce⟩, t, hs⟩

def K := Keccak.keccak256
/-- the Monero identifier formula applied to raw bytes with given boundaries -/
def idFromBytes (b : Bytes) (version p q : Nat) (isNull : Bool) : Bytes :=
  if version = 1 then K b else
  K (K (b.take p) ++ K ((b.drop p).take (q - p)) ++ (if isNull then List.replicate 32 0 else K (b.drop q)))

/-- relation C of `c05_*`: identifier and prefix hash of the transaction that starts `b`, computed from the raw bytes with the
boundaries found by the by-the-book skipper `Spec.txBounds` (Spec/TxSkip.lean) — nothing from the model's parse, except, for an
embedded parse of a non-Null RingCT transaction, the END `k` of the consumed part (the skipper does not walk the prunable part; where the
format fixes the end without it — version 1, no inputs, type Null — the skipper's own end `end?` is used for the hashed range and
printed, and `k` is ignored). `strict`: the whole of `b` must be the transaction; if the skipper's end says otherwise the answer is
`end-mismatch` (equal to no library answer).
`-` where the definition does not apply (non-v1 without inputs); `skip-fail` if the skipper cannot walk the bytes (never equal to a library
answer; impossible when the model accepts: Props/C05 `C05_bounds_are_skipper`) -/
def specIdOfBytes (b : Bytes) (strict : Bool) (k : Nat) : String :=
  match Spec.txBounds b with
  | none => "skip-fail"
  | some bd =>
    let e := match bd.end? with | some e => e | none => k
    let b' := b.take e
    if strict && e != b.length then s!"end-mismatch {e}"
    else if bd.version ≠ 1 ∧ !bd.hasRct then "-"
    else s!"ok {Hex.encode (idFromBytes b' bd.version bd.p bd.q bd.isNull)} {Hex.encode (K (b'.take bd.p))}{if strict then "" else s!" {e}"}"

/-- model and spec answers for an embedded parse of `b`: identifier, prefix hash, bytes consumed -/
def partialId (b : Bytes) : String × String :=
  match tx b with
  | some (t, r) =>
    let k := b.length - r.length
    (s!"ok {Hex.encode (txHash K t)} {Hex.encode (prefixHash K t.pre)} {k}", specIdOfBytes b false k)
  | none => ("err", "-")

def showTx (bytes : Bytes) (reparse : Bool) (id : Option Bytes) (ph : Bytes) : String :=
  s!"{Hex.encode bytes} {if reparse then "eq" else "ne"} {match id with | some i => Hex.encode i | none => "na"} {Hex.encode ph}"
end C03

open C03 in
def stepC03 : Step
  | "c03_tx" :: rest =>
    match txD rest with
    | some (d, []) =>
      let t := build d
      let e := encTx t
      let ok := match tx e with | some (t', []) => t' == t | _ => false
      let mid := if t.pre.version ≠ 1 ∧ t.base.isNone then none else some (txHash K t)
      let sb := Spec.specTx d
      some (showTx e ok mid (prefixHash K t.pre), showTx sb true (Spec.specTxId K d) (Spec.specPrefixHash K d))
    | _ => some ("bad-desc", "bad-desc")
  | "c03_block" :: rest =>
    match blockD rest with
    | some (d, []) =>
      let bl := buildBlock d
      let e := encBlock bl
      let ok := match block e with | some (b', []) => b' == bl | _ => false
      some (s!"{Hex.encode e} {if ok then "eq" else "ne"}", s!"{Hex.encode (Spec.specBlock d)} eq")
    | _ => some ("bad-desc", "bad-desc")
  | ["c05_txid", h] =>
    let b := Hex.decode h
    match tx b with
    | some (t, []) =>
      let p := (encPrefix t.pre).length
      let q := p + (match t.base with | some bs => (encBase bs).length | none => 0)
      let isNull := match t.base with | some bs => bs.ty == 0 | none => false
      let m := s!"ok {Hex.encode (txHash K t)} {Hex.encode (prefixHash K t.pre)}"
      -- the definition does not cover non-v1 transactions without inputs (no RingCT type): no spec side there
      let s0 := if t.pre.version ≠ 1 ∧ t.base.isNone then "-" else s!"ok {Hex.encode (idFromBytes b t.pre.version p q isNull)} {Hex.encode (K (b.take p))}"
      -- independent boundaries (by-the-book skipper over the raw bytes); the boundaries of the model's parse (s0, a consequence of
      -- C05_id_rct) are kept as a cross-check: if the two disagree the spec side shows both and matches nothing
      let s := specIdOfBytes b true b.length
      some (m, if s == s0 then s else s!"{s} | model-boundaries: {s0}")
    | _ => some ("err", "-")
  | ["c05_txid_partial", h] => some (partialId (Hex.decode h))
  -- the same question asked of the library through a short-reading reader (one byte per `read` call): same answers expected
  | ["c05_txid_chunked", h] => some (partialId (Hex.decode h))
  | ["c05_prefixhash", h] =>
    let b := Hex.decode h
    match prefix' b with
    | some (p, []) =>
      -- by the book: the prefix walked by the skipper must end exactly at the end of the bytes; its hash is the hash of the bytes
      let s := match Spec.skipPrefix b with
        | none => "skip-fail"
        | some pe => if pe.rest.isEmpty then s!"ok {Hex.encode (K b)}" else s!"rest-left {pe.rest.length}"
      some (s!"ok {Hex.encode (prefixHash K p)}", s)
    | _ => some ("err", "-")
  | "c05_id_noprun" :: rest =>
    match txD rest with
    | some (d, []) =>
      match d.body with
      | .v2 (some r) =>
        if Spec.tyOf r == .Null then some ("bad-desc", "bad-desc") else
        let t := build d
        -- model: `Transaction::hash` on the struct with `p = None` (constant regenerated from the source);
        -- spec side: the three-hash formula with the byte-reversed Keccak of the empty string as third component, over Spec/Wire bytes
        some (Hex.encode (txHash K { t with prun := none }),
              Hex.encode (K (K (Spec.specPrefix d) ++ K (Spec.specBase r) ++ (K []).reverse)))
      | _ => some ("bad-desc", "bad-desc")
    | _ => some ("bad-desc", "bad-desc")
  | "c03_enc" :: rest =>
    match txD rest with
    | some (d, []) =>
      let t := build d
      let mid := if t.pre.version ≠ 1 ∧ t.base.isNone then none else some (txHash K t)
      let sh (bytes : Bytes) (id : Option Bytes) (ph : Bytes) : String :=
        s!"{Hex.encode bytes} {match id with | some i => Hex.encode i | none => "na"} {Hex.encode ph}"
      some (sh (encTx t) mid (prefixHash K t.pre), sh (Spec.specTx d) (Spec.specTxId K d) (Spec.specPrefixHash K d))
    | _ => some ("bad-desc", "bad-desc")
  | _ => none
end Drv
