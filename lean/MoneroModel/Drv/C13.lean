import MoneroModel.Drv.Util
import MoneroModel.Model.Keys
import MoneroModel.Model.KeyOps
import MoneroModel.Ref.Ed25519
open Monero
namespace Drv
namespace C13
def okErr (b : Bool) : String := if b then "ok" else "err"
/-- spec side: strict RFC 8032 decoding of a 32-byte string -/
def specPt (b : List UInt8) : Option Ed.Pt := Ed.decodePt b
/-- spec side: a scalar is a 32-byte string whose little-endian value is below the group order -/
def specScalar (b : List UInt8) : Option Nat := if b.length = 32 ∧ Ed.leNat b < Ed.l then some (Ed.leNat b) else none
def showPt (o : Option Ed.Pt) : String := match o with | none => "err" | some P => Hex.encode (Ed.encodePt P)
def showSc (o : Option Nat) : String := match o with | none => "err" | some n => Hex.encode (Ed.toBytesLE n 32)
/-- byte-per-character reading (Latin-1), kept for `Drv/C04.lean`; the C13 text operations use `utf8Chars` -/
def asciiChars (b : List UInt8) : List Char := b.map fun x => Char.ofNat x.toNat
/-- the characters of the text handed to `from_str`: the UTF-8 decoding of the bytes (`none` = not UTF-8, so not a `&str`; the
harness answers `err` without calling the library). The model runs on the actual characters (one `Char` per code point), the
spec side (`specHex`) on the bytes. -/
def utf8Chars (b : List UInt8) : Option (List Char) := (String.fromUTF8? (ByteArray.mk b.toArray)).map String.toList
def showStr (f : List Char → Option Bytes) (b : List UInt8) : String :=
  match utf8Chars b with | none => "err" | some cs => (match f cs with | none => "err" | some k => "ok " ++ Hex.encode k)
/-- the three consensus entry points: `deserialize` (everything must be consumed), `deserialize_partial` (key, consumed),
`consensus_decode` on a slice reader (key, remaining) -/
def showWire (inp : Bytes) (o : Option (Bytes × Bytes)) : String :=
  match o with
  | none => "D=err P=err C=err"
  | some (k, rest) =>
    let h := Hex.encode k
    let d := if rest.isEmpty then "ok," ++ h else "err"
    s!"D={d} P=ok,{h},{inp.length - rest.length} C=ok,{h},{rest.length}"
def showDec (inp : Bytes) (o : Option (Bytes × Bytes)) : String :=
  match o with | none => "err" | some (k, rest) => s!"ok {Hex.encode (Keys.consensusEncode k)} {inp.length - rest.length}"
/-- spec side of the text form: an even-length string of ASCII hex digits (either case), read independently of the model -/
def specHexVal (c : UInt8) : Option Nat :=
  if 48 ≤ c.toNat ∧ c.toNat ≤ 57 then some (c.toNat - 48)
  else if 97 ≤ c.toNat ∧ c.toNat ≤ 102 then some (c.toNat - 87)
  else if 65 ≤ c.toNat ∧ c.toNat ≤ 70 then some (c.toNat - 55) else none
def specHex : List UInt8 → Option (List UInt8)
  | [] => some []
  | [_] => none
  | a :: b :: t => match specHexVal a, specHexVal b, specHex t with
    | some x, some y, some r => some (UInt8.ofNat (16 * x + y) :: r)
    | _, _, _ => none
def specText (accept : List UInt8 → Bool) (txt : List UInt8) : String :=
  match specHex txt with
  | some b => if accept b then "ok " ++ Hex.encode b else "err"
  | none => "err"
def specShow (accept : List UInt8 → Bool) (b : List UInt8) : String :=
  if accept b then Hex.encode ((Hex.encode b).toList.map fun c => UInt8.ofNat c.toNat) else "err"
def specWire (accept : List UInt8 → Bool) (b : List UInt8) : String :=
  if 32 ≤ b.length ∧ accept (b.take 32) then showWire b (some (b.take 32, b.drop 32)) else showWire b none
def specCons (accept : List UInt8 → Bool) (b : List UInt8) : String :=
  if 32 ≤ b.length ∧ accept (b.take 32) then s!"ok {Hex.encode (b.take 32)} 32" else "err"
/-- model side of the operators: `err` = an operand refused by `from_slice`, `PANIC` = the `expect` of `point()` fails -/
def showOp (o : Option (Option Bytes)) : String :=
  match o with | none => "err" | some none => "PANIC" | some (some k) => Hex.encode k
def showOp1 (o : Option Bytes) : String := match o with | none => "err" | some k => Hex.encode k
end C13
open C13
/-- C13 operations (byte strings in hex).
`c13_sk <b>` / `c13_pk <b>` → `ok`|`err` (model: `Keys.secretAccept` / `Keys.publicAccept`; spec: `leNat < l` / RFC 8032 decoding);
`c13_pub_of <scalar>` → point; `c13_add <P> <Q>`, `c13_sub <P> <Q>`, `c13_smul <scalar> <P>` → point; all `err` if an operand is
not an accepted key. Model side (`Model/KeyOps.lean`): `from_slice` of the operands, then the permissive `point()` of the stored bytes
(`PANIC` if it fails); `c13_add` / `c13_sub` then go through dalek's Niels-form addition / subtraction transcribed separately
(`dalekAdd`, `dalekSub`) — a path of its own against the spec side (strict RFC 8032 decoding, `Ed.add` / `Ed.sub`); `c13_smul` /
`c13_pub_of` and the final compression of all four call the SAME `Ed.smul` / `Ed.encodePt` of `Ref/Ed25519.lean` as the spec side, so
for scalar multiplication the comparison is library-vs-reference only (model and spec can differ only in the operand path).
`C13_add_bytes` … prove that the two sides agree on accepted operands; what the reference computes is proved to be the group law
(`C13_group_law`).
`c13_sadd <a> <b>`, `c13_smulmul <a> <b>` → scalar (32-byte LE), `c13_smul_u8 <a> <n>` → scalar (`PrivateKey * u8`, n < 256 in
decimal): model side = dalek's `Scalar52::add` / `Scalar52::mul` transcribed on integers (conditional subtraction, two Montgomery
reductions), spec side = `(x + y) % l` / `(x * y) % l` — two different computations (`C13_scalar_ops` proves they agree).
`c13_serde_double <b>` → `ok <k + k>`|`ok PANIC`|`err`:
a `PublicKey` built WITHOUT validation (serde `Deserialize`) from any 32 bytes, then `k + k`; model `Keys.keyAdd b b`, no spec side.
`c13_pk_str <hex of the UTF-8 text>` / `c13_sk_str` → `ok <bytes>`|`err` (FromStr; model on the decoded characters, spec on the bytes);
`c13_pk_show <b>` / `c13_sk_show <b>` → hex text
of the accepted key (Display) as hex-of-ASCII | `err`; `c13_pk_cons <b>` / `c13_sk_cons <b>` → `ok <re-encoded> <consumed>`|`err`
(consensus decode of a prefix, then encode); `c13_pk_wire <b>` / `c13_sk_wire <b>` → `D=… P=… C=…` (deserialize / deserialize_partial /
consensus_decode on the same bytes); `c13_dalek_decompress <b>` → recompressed bytes of dalek's permissive
`CompressedEdwardsY::decompress` | `err` (the intermediate stage of `PublicKey::from_slice`; model `Keys.decompressDalek`). The text, Display and consensus operations have an independent spec side (hex of either case / first 32 bytes, accepted iff RFC 8032 resp. `< l`); `c13_dalek_decompress` is model side only. -/
def stepC13 : Step
  | ["c13_sk", h] => let b := Hex.decode h; some (okErr (Keys.secretAccept b), okErr (specScalar b).isSome)
  | ["c13_pk", h] => let b := Hex.decode h; some (okErr (Keys.publicAccept b), okErr (specPt b).isSome)
  | ["c13_dalek_decompress", h] =>
    let b := Hex.decode h
    if b.length != 32 then some ("err", "-") else
    some ((match Keys.decompressDalek (Ed.leNat b) with | none => "err" | some P => Hex.encode (Ed.encodePt P)), "-")
  | ["c13_pub_of", a] =>
    some (showOp1 (Keys.opPubOf (Hex.decode a)), showPt ((specScalar (Hex.decode a)).map fun n => Ed.smul n Ed.G))
  | ["c13_add", a, b] =>
    some (showOp (Keys.opAdd (Hex.decode a) (Hex.decode b)),
      showPt (match specPt (Hex.decode a), specPt (Hex.decode b) with | some P, some Q => some (Ed.add P Q) | _, _ => none))
  | ["c13_sub", a, b] =>
    some (showOp (Keys.opSub (Hex.decode a) (Hex.decode b)),
      showPt (match specPt (Hex.decode a), specPt (Hex.decode b) with | some P, some Q => some (Ed.sub P Q) | _, _ => none))
  | ["c13_smul", a, b] =>
    some (showOp (Keys.opSmul (Hex.decode a) (Hex.decode b)),
      showPt (match specScalar (Hex.decode a), specPt (Hex.decode b) with | some n, some P => some (Ed.smul n P) | _, _ => none))
  | ["c13_sadd", a, b] =>
    some (showOp1 (Keys.opScalarAdd (Hex.decode a) (Hex.decode b)),
      showSc (match specScalar (Hex.decode a), specScalar (Hex.decode b) with | some x, some y => some ((x + y) % Ed.l) | _, _ => none))
  | ["c13_smulmul", a, b] =>
    some (showOp1 (Keys.opScalarMul (Hex.decode a) (Hex.decode b)),
      showSc (match specScalar (Hex.decode a), specScalar (Hex.decode b) with | some x, some y => some ((x * y) % Ed.l) | _, _ => none))
  | ["c13_smul_u8", a, n] =>
    let k := n.toNat!
    if k ≥ 256 then some ("err", "err") else
    some (showOp1 (Keys.opScalarMulU8 (Hex.decode a) k), showSc ((specScalar (Hex.decode a)).map fun x => (x * k) % Ed.l))
  | ["c13_serde_double", h] =>
    let b := Hex.decode h
    if b.length != 32 then some ("err", "-") else
    some ("ok " ++ (match Keys.keyAdd b b with | none => "PANIC" | some r => Hex.encode r), "-")
  | ["c13_pk_str", h] => some (showStr Keys.publicFromStr (Hex.decode h), specText (fun b => (specPt b).isSome) (Hex.decode h))
  | ["c13_sk_str", h] => some (showStr Keys.secretFromStr (Hex.decode h), specText (fun b => (specScalar b).isSome) (Hex.decode h))
  | ["c13_pk_show", h] =>
    some ((match Keys.publicFromSlice (Hex.decode h) with | none => "err" | some k => Hex.encode ((Keys.keyToString k).map fun c => UInt8.ofNat c.toNat)),
      specShow (fun b => (specPt b).isSome) (Hex.decode h))
  | ["c13_sk_show", h] =>
    some ((match Keys.secretFromSlice (Hex.decode h) with | none => "err" | some k => Hex.encode ((Keys.keyToString k).map fun c => UInt8.ofNat c.toNat)),
      specShow (fun b => (specScalar b).isSome) (Hex.decode h))
  | ["c13_pk_cons", h] => let b := Hex.decode h; some (showDec b (Keys.publicConsensusDecode b), specCons (fun b => (specPt b).isSome) b)
  | ["c13_sk_cons", h] => let b := Hex.decode h; some (showDec b (Keys.secretConsensusDecode b), specCons (fun b => (specScalar b).isSome) b)
  | ["c13_pk_wire", h] => let b := Hex.decode h; some (showWire b (Keys.publicConsensusDecode b), specWire (fun b => (specPt b).isSome) b)
  | ["c13_sk_wire", h] => let b := Hex.decode h; some (showWire b (Keys.secretConsensusDecode b), specWire (fun b => (specScalar b).isSome) b)
  | _ => none
end Drv
