import MoneroModel.Drv.Util
import MoneroModel.Model.VarInt
import MoneroModel.Spec.Leb128
open Monero
namespace Drv
def stepC14 : Step
  | ["varint_dec", h] =>
    let b := Hex.decode h
    let m := match varint b with | none => "err" | some (n, r) => s!"ok {n} {b.length - r.length}"
    some (m, showOptNN (Spec.leb128Accept b))
  | ["varint_enc", n] =>
    match n.toNat? with
    | some k => let (bs, len) := encVarintImp k; some (s!"{Hex.encode bs} {len}", s!"{Hex.encode (Spec.leb128 k)} {Spec.leb128Len k}")
    | none => none
  | _ => none
end Drv
