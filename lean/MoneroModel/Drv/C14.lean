import MoneroModel.Drv.Util
import MoneroModel.Model.VarInt
import MoneroModel.Spec.Leb128
open Monero
namespace Drv
def stepC14 : Step
  | ["varint_dec", h] =>
    let b := Hex.decode h
    let m := match varint b with | none => "err" | some (n, r) => s!"ok {n} {b.length - r.length}"
    some (m, showOptNN (Spec.leb128Accept b))
  | ["varint_enc", n] =>
    match n.toNat? with
    | some k => let (bs, len) := encVarintImp k; some (s!"{Hex.encode bs} {len}", s!"{Hex.encode (Spec.leb128 k)} {Spec.leb128Len k}")
    | none => none
  | ["varint_decx", h] =>
    let b := Hex.decode h
    let m := match varintE b with
      | .ok (n, r) => s!"ok {n} {b.length - r.length}"
      | .error (.eof, k) => s!"err:eof {k}"
      | .error (.zero, k) => s!"err:zero {k}"
      | .error (.overflow, k) => s!"err:overflow {k}"
    let s := match Spec.classify b with
      | .ok n k => s!"ok {n} {k}"
      | .truncated k => s!"err:eof {k}"
      | .nonminimal k => s!"err:zero {k}"
      | .toobig k => s!"err:overflow {k}"
    some (m, s)
  | ["varint_des", h] =>
    let b := Hex.decode h
    let sh : Option Nat → String := fun | some n => s!"ok {n}" | none => "err"
    some (sh (varintExact b), sh (Spec.acceptExact b))
  | _ => none
end Drv
