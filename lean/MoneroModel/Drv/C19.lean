import MoneroModel.Drv.Util
import MoneroModel.Drv.C12
import MoneroModel.Drv.C15
import MoneroModel.Model.Json
import MoneroModel.Spec.Decimal
open Monero Monero.Json
/-! C19 driver step. JSON texts the library PRINTS travel as plain text (they are ASCII without blanks: serde_json's compact
form), JSON texts it READS travel as the hex of their UTF-8 bytes.

* `c19_json <tx|block|prefix> <consensus hex>` → `<to_string text> rt=<eq|ne|err>` | `err` (bytes not strictly decodable);
  `rt` = `from_str` of that text compared with the value
* `c19_json hash <32 bytes>` / `hash8 <8 bytes>` / `index <major> <minor>` / `varint <n>` / `rcttype <0..6>` /
  `extra <sub-field tokens>` (an `ExtraField`; tokens `P:<key>` `N:<bytes>` `D:<u8>` `M:<depth>:<hash>` `A:<key>,…` `G:<bytes>` joined by `;`, `-` = none)
* `c19_json_rd <tx|block|prefix|extra> …` → `<to_string text> rd=<…> val=<…> slice=<…>`: `from_reader`, `to_value`→`from_value`, `from_slice`
* `c19_de <tx|block|prefix|txin|txout|ecdh|key|hash|hash8|index|varint|rcttype|rctsig|extra|subfield|pubkey|key64|rangesig|header|base|prunable|sig|ctkey|bp|bpp|mg|clsag> <json hex>` → `ok <to_string of the value read>` | `err`
* `c19_amount <as_pico|as_xmr> <plain|opt|vec> <u|s> <values…>` (`none` for an absent option) → `<text> rt=<eq|ne|err>`
* `c19_amount_de <as_pico|as_xmr> <plain|opt|vec> <u|s> <json hex>` → `ok <values…>` | `err`
* `c19_amount_rd …` the same through a non-borrowing deserialiser (`from_reader`); spec side = what reading the same
  document as plain owned strings gives (the property asks sequences to read back like single amounts)
* `c19_addr <address text hex>` → `<text> rt=<eq|ne|err>` | `err`;  `c19_addr_de <json hex>` → `ok <address text hex>` | `err`
* `c19_addr_parts <net> <Standard|SubAddress|Integrated> <spend> <view> <payment id|->` → as `c19_addr`, for the address BUILT from its
  parts (spec side: the text of `Spec.Address.text`, quoted, `rt=eq`)
* `c19_amount_forms …` = `c19_amount …` with `rd= val= slice=` (the other entry points) instead of `rt=`
* `c19_seq <op…> ; <op…> ; …` → the results of the operations, executed one after the other in ONE call of the library's thread,
  joined by ` ; ` (model side: each operation on its own — the model has no state; spec side: joined if every part has one)
Model side = `Model/Json.lean`. Spec side: `c19_amount` (`specAmount`, the by-convention text with `Spec.Decimal.specFormat`) and
`c19_amount_de` / `c19_amount_rd` (`specAmtDoc`: `Spec.Decimal.specParse 12` / integer ranges, no reader of `Model/Json`); `-` elsewhere. -/

deriving instance DecidableEq for Monero.TxIn
deriving instance DecidableEq for Monero.Target
deriving instance DecidableEq for Monero.TxOut
deriving instance DecidableEq for Monero.Prefix
deriving instance DecidableEq for Monero.Ecdh
deriving instance DecidableEq for Monero.Base
deriving instance DecidableEq for Monero.BP
deriving instance DecidableEq for Monero.BPP
deriving instance DecidableEq for Monero.MG
deriving instance DecidableEq for Monero.Clsag
deriving instance DecidableEq for Monero.Prunable
deriving instance DecidableEq for Monero.Tx
deriving instance DecidableEq for Monero.Header
deriving instance DecidableEq for Monero.Block

namespace Drv
namespace C19
def text (b : Bytes) : String := String.ofList (b.map fun c => Char.ofNat c.toNat)

/-- print, read the print back, compare -/
def withRt {α} [DecidableEq α] (x : α) (toJ : α → Json) (fromJ : Json → Option α) : String :=
  let t := render (toJ x)
  let rt := match parse t with
    | none => "err"
    | some j => match fromJ j with | none => "err" | some y => if y = x then "eq" else "ne"
  s!"{text t} rt={rt}"

def showDe {α} (toJ : α → Json) (fromJ : Json → Option α) (b : Bytes) : String :=
  match parse b with
  | none => "err"
  | some j => match fromJ j with | none => "err" | some y => "ok " ++ text (render (toJ y))

/-- `… rd=<from_reader> val=<to_value → from_value> slice=<from_slice>`: the non-borrowing entry points see every string
as owned (`Json.owned`); `from_value` works on the tree, without the printer / parser. NOTE: since the fix of `as_xmr::vec` no
reader of `Model/Json.lean` distinguishes `.str` from `.strEsc` (`readBorrowedStr` is unused), so the three columns are the SAME
computation as `rt` of `withRt` — the model side is the constant prediction "these entry points behave like `from_str`";
`to_value` / `from_value` are not modelled separately. What varies is the Rust side, which really calls the three entry points
(`Json.owned` would bite on a borrowing reader: see the `readBorrowedStr` example in Props/C19.lean). -/
def withRd {α} [DecidableEq α] (x : α) (toJ : α → Json) (fromJ : Json → Option α) : String :=
  let t := render (toJ x)
  let cmp (o : Option α) : String := match o with | none => "err" | some y => if y = x then "eq" else "ne"
  let rd := cmp ((parse t).bind fun j => fromJ (owned 1000 j))
  let val := cmp (fromJ (owned 1000 (toJ x)))
  let sl := cmp ((parse t).bind fromJ)
  s!"{text t} rd={rd} val={val} slice={sl}"

/-- `SubField` tokens, see harness/src/c19.rs `subs_of`; `none` if a token is not a value of the Rust type -/
def parseSub (t : String) : Option Extra.SubField :=
  let key (h : String) : Option Bytes := let b := Hex.decode h; if b.length = 32 ∧ h.length = 64 then some b else none
  match t.splitOn ":" with
  | ["P", h] => (key h).map .txPub
  | ["N", h] => some (.nonce (Hex.decode h))
  | ["D", n] => n.toNat?.bind fun n => if n < 256 then some (.padding n) else none
  | ["M", n, h] => n.toNat?.bind fun d => if d < 2^64 then (key h).map (.mergeMining d) else none
  | ["A", hs] => if hs = "" then some (.addKeys []) else ((hs.splitOn ",").mapM key).map .addKeys
  | ["G", h] => some (.minerGate (Hex.decode h))
  | _ => none
def parseSubs (t : String) : Option (List Extra.SubField) :=
  if t = "-" then some [] else (t.splitOn ";").mapM parseSub

/-- by-the-convention rendering of the documented wrappers, written independently of Model/Json.lean: piconero as a JSON
integer, monero as the exact 12-decimal string of Spec.Decimal; `null` for an absent option; reading back succeeds iff
every monero string is within the parsing limit |a| <= 2^63 - 1 -/
def specAmtText (xmr : Bool) (a : Int) : String :=
  if xmr then "\"" ++ String.ofList ((Spec.Decimal.specFormat 12 a).map fun b => Char.ofNat b.toNat) ++ "\"" else toString a
def specAmountG (forms : Bool) (xmr : Bool) (shape : String) (vals : List (Option Int)) : String :=
  let body := match shape, vals with
    | "vec", vs => "{\"amounts\":[" ++ ",".intercalate (vs.map fun v => match v with | some a => specAmtText xmr a | none => "null") ++ "]}"
    | _, [some a] => "{\"amount\":" ++ specAmtText xmr a ++ "}"
    | _, _ => "{\"amount\":null}"
  let ok := vals.all fun v => match v with | some a => !xmr || decide (-(2^63 - 1 : Int) ≤ a ∧ a ≤ 2^63 - 1) | none => true
  let r := if ok then "eq" else "err"
  if forms then s!"{body} rd={r} val={r} slice={r}" else s!"{body} rt={r}"
def specAmount (xmr : Bool) (shape : String) (vals : List (Option Int)) : String := specAmountG false xmr shape vals
def encOfStr : String → Option AmtEnc | "as_pico" => some .pico | "as_xmr" => some .xmr | _ => none
def inRange (signed : Bool) (a : Int) : Bool :=
  if signed then decide (-(2^63 : Int) ≤ a ∧ a < 2^63) else decide (0 ≤ a ∧ a < 2^64)
def showVals (xs : List Int) : String := xs.foldl (fun s v => s ++ s!" {v}") "ok"
def showAmtDe (e : AmtEnc) (shape : String) (signed : Bool) (j : Option Json) : Option String :=
  match shape with
  | "plain" => some (match j.bind (hasAmountFromJson signed e) with | none => "err" | some v => s!"ok {v}")
  | "opt" => some (match j.bind (hasOptAmountFromJson signed e) with
      | none => "err" | some none => "ok none" | some (some v) => s!"ok {v}")
  | "vec" => some (match j.bind (hasAmountsFromJson signed e) with | none => "err" | some vs => showVals vs)
  | _ => none
/-- the sequence document read element by element like single amounts (independently of `amtVecFromJson`; before the fix of
`as_xmr::vec`, which asked for borrowed strings, the library disagreed with this side) -/
def vecAsPlain (signed : Bool) (e : AmtEnc) (j : Json) : Option (List Int) :=
  match fieldsOf ["amounts"] 0 j with
  | some [none] => some []
  | some [some (.arr xs)] => mapOpt (amtFromJson signed e) xs
  | _ => none

/-! ### specification side of the amount READERS, written without any reader of `Model/Json.lean` and without the C15 model:
one amount is a JSON integer in the range of the Rust type (`as_pico`) or a JSON string — escaped or not — that
`Spec.Decimal.specParse` for twelve decimals accepts (`as_xmr`); the wrapper struct is an object with the field once
(absent: an error, or the default for the `opt` / `vec` wrappers) or its one-element positional form. -/
def specAmtRead (signed xmr : Bool) : Json → Option Int
  | .num n => if xmr then none else if inRange signed n then some n else none
  | .str s => if xmr then Spec.Decimal.specParse signed 12 s else none
  | .strEsc s => if xmr then Spec.Decimal.specParse signed 12 s else none
  | _ => none
/-- `none` = malformed, `some none` = field absent, `some (some v)` = field given once -/
def specField (name : String) : Json → Option (Option Json)
  | .obj kvs => match kvs.filter (fun kv => kv.1 == name) with | [] => some none | [kv] => some (some kv.2) | _ => none
  | .arr [] => some none
  | .arr [v] => some (some v)
  | _ => none
def specAll (signed xmr : Bool) : List Json → Option (List Int)
  | [] => some []
  | x :: xs => match specAmtRead signed xmr x, specAll signed xmr xs with | some a, some r => some (a :: r) | _, _ => none
def specAmtDoc (signed xmr : Bool) (shape : String) (j : Option Json) : Option String :=
  match shape with
  | "plain" => some (match j.bind (specField "amount") with
      | some (some v) => (match specAmtRead signed xmr v with | some a => s!"ok {a}" | none => "err")
      | _ => "err")
  | "opt" => some (match j.bind (specField "amount") with
      | some none => "ok none"
      | some (some .null) => "ok none"
      | some (some v) => (match specAmtRead signed xmr v with | some a => s!"ok {a}" | none => "err")
      | none => "err")
  | "vec" => some (match j.bind (specField "amounts") with
      | some none => "ok"
      | some (some (.arr xs)) => (match specAll signed xmr xs with | some vs => showVals vs | none => "err")
      | _ => "err")
  | _ => none
end C19

open C19 in
def stepC19One : Step := fun toks =>
  match toks with
  | ["c19_json", "tx", h] =>
    some ((match tx (Hex.decode h) with | some (t, []) => withRt t txJ txFromJson | _ => "err"), "-")
  | ["c19_json", "block", h] =>
    some ((match block (Hex.decode h) with | some (t, []) => withRt t blockJ blockFromJson | _ => "err"), "-")
  | ["c19_json", "prefix", h] =>
    some ((match prefix' (Hex.decode h) with | some (t, []) => withRt t prefixJ prefixFromJson | _ => "err"), "-")
  | ["c19_json", "hash", h] =>
    let b := Hex.decode h
    some ((if b.length = 32 then withRt b bytesJ (readBytesN 32) else "err"), "-")
  | ["c19_json", "hash8", h] =>
    let b := Hex.decode h
    some ((if b.length = 8 then withRt b bytesJ (readBytesN 8) else "err"), "-")
  | ["c19_json", "index", a, b] => do
    let a ← a.toNat?; let b ← b.toNat?
    pure (withRt (a, b) indexJ indexFromJson, "-")
  | ["c19_json", "varint", a] => do
    let a ← a.toNat?
    pure (withRt a natJ (readUInt U64), "-")
  | ["c19_json", "rcttype", a] => do
    let a ← a.toNat?
    pure (withRt a rctTypeJ rctTypeFromJson, "-")
  | ["c19_json", "extra", t] =>
    some ((match parseSubs t with | some fs => withRt fs extraFieldJ extraFieldFromJson | none => "err"), "-")
  | ["c19_json_rd", "tx", h] =>
    some ((match tx (Hex.decode h) with | some (t, []) => withRd t txJ txFromJson | _ => "err"), "-")
  | ["c19_json_rd", "block", h] =>
    some ((match block (Hex.decode h) with | some (t, []) => withRd t blockJ blockFromJson | _ => "err"), "-")
  | ["c19_json_rd", "prefix", h] =>
    some ((match prefix' (Hex.decode h) with | some (t, []) => withRd t prefixJ prefixFromJson | _ => "err"), "-")
  | ["c19_json_rd", "extra", t] =>
    some ((match parseSubs t with | some fs => withRd fs extraFieldJ extraFieldFromJson | none => "err"), "-")
  | ["c19_de", ty, h] =>
    let b := Hex.decode h
    let r : Option String :=
      match ty with
      | "tx" => some (showDe txJ txFromJson b)
      | "block" => some (showDe blockJ blockFromJson b)
      | "prefix" => some (showDe prefixJ prefixFromJson b)
      | "txin" => some (showDe txInJ txInFromJson b)
      | "txout" => some (showDe txOutJ txOutFromJson b)
      | "ecdh" => some (showDe ecdhJ ecdhFromJson b)
      | "key" => some (showDe keyJ keyFromJson b)
      | "hash" => some (showDe bytesJ (readBytesN 32) b)
      | "hash8" => some (showDe bytesJ (readBytesN 8) b)
      | "index" => some (showDe indexJ indexFromJson b)
      | "varint" => some (showDe natJ (readUInt U64) b)
      | "rcttype" => some (showDe rctTypeJ rctTypeFromJson b)
      | "rctsig" => some (showDe (fun (x : Option Base × Option Prunable) => rctSigJ x.1 x.2) rctSigFromJson b)
      | "extra" => some (showDe extraFieldJ extraFieldFromJson b)
      | "subfield" => some (showDe subFieldJ subFieldFromJson b)
      | "pubkey" => some (showDe publicKeyJ publicKeyFromJson b)
      | "key64" => some (showDe key64J key64FromJson b)
      | "rangesig" => some (showDe rangeSigJ rangeSigFromJson b)
      | "header" => some (showDe headerJ headerFromJson b)
      | "base" => some (showDe baseJ baseFromJson b)
      | "prunable" => some (showDe prunableJ prunableFromJson b)
      | "sig" => some (showDe sigJ sigFromJson b)
      | "ctkey" => some (showDe ctKeyJ ctKeyFromJson b)
      | "bp" => some (showDe bpJ bpFromJson b)
      | "bpp" => some (showDe bppJ bppFromJson b)
      | "mg" => some (showDe mgJ mgFromJson b)
      | "clsag" => some (showDe clsagJ clsagFromJson b)
      | _ => none
    r.map fun m => (m, "-")
  | "c19_amount" :: enc :: shape :: ty :: vals => do
    let e ← encOfStr enc; let signed ← signedOfStr ty
    match shape, vals with
    | "plain", [a] =>
      let a ← a.toInt?
      if !inRange signed a then none else
      pure (withRt a (hasAmountJ signed e) (hasAmountFromJson signed e), specAmount (enc == "as_xmr") "plain" [some a])
    | "opt", ["none"] => pure (withRt none (hasOptAmountJ signed e) (hasOptAmountFromJson signed e), specAmount (enc == "as_xmr") "opt" [none])
    | "opt", [a] =>
      let a ← a.toInt?
      if !inRange signed a then none else
      pure (withRt (some a) (hasOptAmountJ signed e) (hasOptAmountFromJson signed e), specAmount (enc == "as_xmr") "opt" [some a])
    | "vec", vs =>
      let vs ← vs.mapM fun (v : String) => v.toInt?
      if !vs.all (inRange signed) then none else
      pure (withRt vs (hasAmountsJ signed e) (hasAmountsFromJson signed e), specAmount (enc == "as_xmr") "vec" (vs.map some))
    | _, _ => none
  | "c19_amount_forms" :: enc :: shape :: ty :: vals => do
    let e ← encOfStr enc; let signed ← signedOfStr ty
    match shape, vals with
    | "plain", [a] =>
      let a ← a.toInt?
      if !inRange signed a then none else
      pure (withRd a (hasAmountJ signed e) (hasAmountFromJson signed e), specAmountG true (enc == "as_xmr") "plain" [some a])
    | "opt", ["none"] => pure (withRd none (hasOptAmountJ signed e) (hasOptAmountFromJson signed e), specAmountG true (enc == "as_xmr") "opt" [none])
    | "opt", [a] =>
      let a ← a.toInt?
      if !inRange signed a then none else
      pure (withRd (some a) (hasOptAmountJ signed e) (hasOptAmountFromJson signed e), specAmountG true (enc == "as_xmr") "opt" [some a])
    | "vec", vs =>
      let vs ← vs.mapM fun (v : String) => v.toInt?
      if !vs.all (inRange signed) then none else
      pure (withRd vs (hasAmountsJ signed e) (hasAmountsFromJson signed e), specAmountG true (enc == "as_xmr") "vec" (vs.map some))
    | _, _ => none
  | ["c19_amount_de", enc, shape, ty, h] => do
    let e ← encOfStr enc; let signed ← signedOfStr ty
    let j := parse (Hex.decode h)
    let m ← showAmtDe e shape signed j
    let s ← specAmtDoc signed (enc == "as_xmr") shape j
    pure (m, s)
  | ["c19_amount_rd", enc, shape, ty, h] => do
    let e ← encOfStr enc; let signed ← signedOfStr ty
    let j := parse (Hex.decode h)
    let m ← showAmtDe e shape signed (j.map (owned 1000))
    let s ← specAmtDoc signed (enc == "as_xmr") shape j
    pure (m, s)
  | ["c19_addr", h] =>
    some ((match Address.fromStr C12.H C12.validKey (Hex.decode h) with
      | none => "err"
      | some a =>
        match addrJ C12.H a with
        | none => "fmt-err"
        | some j =>
          let t := render j
          let rt := match (parse t).bind (addrFromJson C12.H C12.validKey) with
            | none => "err" | some a' => if a' = a then "eq" else "ne"
          s!"{text t} rt={rt}"), "-")
  | ["c19_addr_parts", n, k, sp, vw, p] => do
    let a ← C12.mkAddr n k sp vw p
    if !(C12.constructible C12.validKey a) then pure ("err", "err") else
      let m := match addrJ C12.H a with
        | none => "fmt-err"
        | some j =>
          let t := render j
          let rt := match (parse t).bind (addrFromJson C12.H C12.validKey) with
            | none => "err" | some a' => if a' = a then "eq" else "ne"
          s!"{text t} rt={rt}"
      pure (m, "\"" ++ text (Spec.Address.text C12.H a.net a.kind a.spend a.view a.pid) ++ "\" rt=eq")
  | ["c19_addr_de", h] =>
    some ((match (parse (Hex.decode h)).bind (addrFromJson C12.H C12.validKey) with
      | none => "err"
      | some a => match Address.toStr C12.H a with | none => "fmt-err" | some s => "ok " ++ Hex.encode s), "-")
  | _ => none

/-- the parts of a `c19_seq` line (separated by the token `;`) -/
def C19.splitSeq (toks : List String) : List (List String) :=
  let (acc, cur) := toks.foldl (fun (st : List (List String) × List String) t => if t = ";" then (st.2.reverse :: st.1, []) else (st.1, t :: st.2)) ([], [])
  (cur.reverse :: acc).reverse

def stepC19 : Step := fun toks =>
  match toks with
  | "c19_seq" :: rest => do
    let parts := C19.splitSeq rest
    if parts.any (fun p => p.isEmpty || p.head? == some "c19_seq") then none else
    let rs ← parts.mapM stepC19One
    let spec := if rs.all (fun r => r.2 != "-") then " ; ".intercalate (rs.map (·.2)) else "-"
    pure (" ; ".intercalate (rs.map (·.1)), spec)
  | _ => stepC19One toks
end Drv
