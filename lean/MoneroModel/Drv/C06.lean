import MoneroModel.Drv.Util
import MoneroModel.Model.TxHash
import MoneroModel.Model.TreeHash
import MoneroModel.Spec.TreeHash
import MoneroModel.Ref.Keccak
open Monero
/-! Driver step for C06. Operations (byte strings in hex, `-` = empty):
* `c06_tree <hex of k ≥ 1 concatenated 32-byte hashes>` (first = root hash, rest = extra hashes)
  → `<hex of the tree hash>` | `panic` | `err` (not a positive multiple of 32 bytes)
* `c06_block <block hex> <header hex> <miner tx hash hex> <concatenated tx hashes hex | ->`
  → `ok <tx_root> <hashable blob> <id>` | `panic` | `err`; the first token is used by the implementation only
* `c06_one <r|b|i> <block hex> <header hex> <miner tx hash hex> <concatenated tx hashes hex | ->`
  → `ok <hex>`: ONE of tx_root / serialize_hashable / id of the block (same sides as `c06_block`) | `panic` | `err`
* `c06_blob <hdr hex> <root hex> <n>` → blob hex;  `c06_id <hdr hex> <root hex> <n>` → id hex: the blob / identifier formulas on GIVEN
  parts (model `blobOf` / `blockIdOf` vs spec `powBlob` / `blockIdSpec`; the harness side is its independent Rust formula, family 18) -/
namespace Drv
namespace C06

/-- split into 32-byte chunks; `none` if the length is not a multiple of 32 -/
def chunks32 (b : Bytes) : Option (List Bytes) :=
  if _h : b = [] then some [] else
  let c := b.take 32
  if c.length < 32 then none else   -- (`b.length` here would make the split quadratic)
  match chunks32 (b.drop 32) with
  | none => none
  | some cs => some (c :: cs)
termination_by b.length
decreasing_by
  have : 0 < b.length := List.length_pos_iff.mpr _h
  simp only [List.length_drop]; omega

/-- `CORRECT_BLOCK_ID_202612` / `EXISTING_BLOCK_ID_202612` of src/blockdata/block.rs (model side): the values REGENERATED from the
current source on every run (`Gen/Consts.lean`), the same definitions that `C06_consts`, `C06_id_gen`, `C06_parsed_block` are about
(until the audit of C06 these were hand copies of the hex strings) -/
def correct202612 : Bytes := Gen.correctId202612
def existing202612 : Bytes := Gen.existingId202612

def K : Bytes → Bytes := Keccak.keccak256

def showOpt (o : Option Bytes) : String := match o with | none => "panic" | some b => Hex.encode b

end C06
open C06

def stepC06 : Step
  | ["c06_tree", h] =>
    match chunks32 (Hex.decode h) with
    | some (root :: extra) =>
      some (showOpt (TreeHash.treeHash K root extra), Hex.encode (Spec.TreeHash.treeSpec K (root :: extra)))
    | _ => some ("err", "err")
  | ["c06_block", blk, hdr, miner, txs] =>
    let hdrB := Hex.decode hdr
    let minerB := Hex.decode miner
    -- model side: everything from the block bytes alone (codec model → header bytes, miner-tx id by the model of
    -- `Transaction::hash`, listed hashes), then the model of tx_root / serialize_hashable / id
    let m := match strict block (Hex.decode blk) with
      | none => "err"
      | some b =>
        let hb := encHeader b.hdr
        let mh := txHash K b.miner
        match TreeHash.txRoot K mh b.hashes, TreeHash.serializeHashable K hb mh b.hashes,
              TreeHash.blockId K correct202612 existing202612 hb mh b.hashes with
        | some r, some bl, some i => s!"ok {Hex.encode r} {Hex.encode bl} {Hex.encode i}"
        | _, _, _ => "panic"
    -- spec side: the by-the-book formulas on the parts handed over by the generator
    match chunks32 (Hex.decode txs) with
    | some hs =>
      if minerB.length ≠ 32 ∨ hdrB = [] then some (m, "err") else
      let (r, b, i) := Spec.TreeHash.blockSpec K hdrB minerB hs
      some (m, s!"ok {Hex.encode r} {Hex.encode b} {Hex.encode i}")
    | none => some (m, "err")
  | ["c06_one", which, blk, hdr, miner, txs] =>
    if which ≠ "r" ∧ which ≠ "b" ∧ which ≠ "i" then none else
    let hdrB := Hex.decode hdr
    let minerB := Hex.decode miner
    let m := match strict block (Hex.decode blk) with
      | none => "err"
      | some b =>
        let hb := encHeader b.hdr
        let mh := txHash K b.miner
        let v := if which = "r" then TreeHash.txRoot K mh b.hashes
                 else if which = "b" then TreeHash.serializeHashable K hb mh b.hashes
                 else TreeHash.blockId K correct202612 existing202612 hb mh b.hashes
        match v with
        | some x => s!"ok {Hex.encode x}"
        | none => "panic"
    match chunks32 (Hex.decode txs) with
    | some hs =>
      if minerB.length ≠ 32 ∨ hdrB = [] then some (m, "err") else
      let (r, b, i) := Spec.TreeHash.blockSpec K hdrB minerB hs
      some (m, s!"ok {Hex.encode (if which = "r" then r else if which = "b" then b else i)}")
    | none => some (m, "err")
  | ["c06_cnt", n] =>
    match n.toNat? with
    | some k =>
      let m := match TreeHash.treeHashCnt k with | some c => s!"ok {c}" | none => "panic"
      -- by the book: defined for 3 ≤ n ≤ 2^28 as the largest power of two strictly below n
      let sp := if k < 3 ∨ 2^28 < k then "panic" else s!"ok {2 ^ Nat.log2 (k - 1)}"
      some (m, sp)
    | none => none
  | ["c06_blob", hdr, root, n] =>
    match n.toNat? with
    | some k => some (Hex.encode (TreeHash.blobOf (Hex.decode hdr) (Hex.decode root) k),
                      Hex.encode (Spec.TreeHash.powBlob (Hex.decode hdr) (Hex.decode root) k))
    | none => none
  | ["c06_id", hdr, root, n] =>
    match n.toNat? with
    | some k =>
      some (Hex.encode (TreeHash.blockIdOf K correct202612 existing202612
              (TreeHash.blobOf (Hex.decode hdr) (Hex.decode root) k)),
            Hex.encode (Spec.TreeHash.blockIdSpec K (Spec.TreeHash.powBlob (Hex.decode hdr) (Hex.decode root) k)))
    | none => none
  | _ => none
end Drv
