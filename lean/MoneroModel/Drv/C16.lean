import MoneroModel.Drv.Util
import MoneroModel.Model.Extra
import MoneroModel.Spec.Extra
import MoneroModel.Spec.ExtraParse
import MoneroModel.Ref.Ed25519
open Monero Monero.Extra
/-! Driver step for C16 (transaction extra).

Dump of a field list: fields separated by `,` (`-` for the empty list); `P<n>` padding, `K<hex>` tx public key,
`N<hex>` nonce (`N` alone = empty), `M<depth>:<hex>` merge mining, `A<k>:<hex of the k keys concatenated>` additional
keys, `G<hex>` MinerGate blob.

* `c16_parse <hex>` → `<ok|err> <n> <dump> pre=<dump of the fields before the first failure> | txkey=<hex|none> addkeys=<k>:<hex>|none`
* `c16_ser <dump>` → hex of `RawExtraField::from(ExtraField(fields))` (`err` if the dump does not denote a value:
  invalid key, padding > 255, depth ≥ 2^64; `PANIC` if the conversion's `unwrap` would fail)
* `c16_subfield <hex>` → `ok <dump>` | `err` (strict `deserialize::<SubField>`)
* `c16_rawparse <hex>` → `<n> <dump>` of `RawExtraField::try_parse` (model `rawTryParse`)
* `c16_okpre <hex>` → `<ok|err> pre=<dump>`: the flag and the fields before the first failure — exactly what the property
  constrains for arbitrary bytes; model = `tryParse`, spec = the independent grammar reader `Spec.Extra.parse` -/
namespace Drv.C16

/-- `PublicKey::from_slice` acceptance by the reference curve arithmetic: decodes, and re-encodes to the same bytes -/
def edValid (b : Bytes) : Bool :=
  b.length == 32 && (match Ed.decodePt b with | some P => Ed.encodePt P == b | none => false)

def hx (b : Bytes) : String := if b.isEmpty then "" else Hex.encode b
def unhx (s : String) : Bytes := if s.isEmpty then [] else Hex.decode s

def dumpField : SubField → String
  | .padding n => s!"P{n}"
  | .txPub k => "K" ++ hx k
  | .nonce n => "N" ++ hx n
  | .mergeMining d h => s!"M{d}:" ++ hx h
  | .addKeys ks => s!"A{ks.length}:" ++ hx ks.flatten
  | .minerGate d => "G" ++ hx d
def dump (fs : List SubField) : String := if fs.isEmpty then "-" else ",".intercalate (fs.map dumpField)

def chunks32 : Nat → Bytes → List Bytes → List Bytes
  | 0, _, acc => acc.reverse
  | n+1, b, acc => chunks32 n (b.drop 32) (b.take 32 :: acc)

def parseField (s : String) : Option SubField :=
  match s.toList with
  | 'P' :: r => (String.ofList r).toNat?.map .padding
  | 'K' :: r => some (.txPub (unhx (String.ofList r)))
  | 'N' :: r => some (.nonce (unhx (String.ofList r)))
  | 'G' :: r => some (.minerGate (unhx (String.ofList r)))
  | 'M' :: r => match (String.ofList r).splitOn ":" with
    | [d, h] => d.toNat?.map fun d => .mergeMining d (unhx h)
    | _ => none
  | 'A' :: r => match (String.ofList r).splitOn ":" with
    | [k, h] => match k.toNat? with
      | some k => let b := unhx h; if b.length = 32 * k then some (.addKeys (chunks32 k b [])) else none
      | none => none
    | _ => none
  | _ => none
def parseDump (s : String) : Option (List SubField) :=
  if s == "-" then some [] else (s.splitOn ",").mapM parseField

/-- can the dump be built as a Rust value? (`PublicKey` valid, `u8`, `u64`, `Hash` = 32 bytes) -/
def constructible : SubField → Bool
  | .padding n => n ≤ 255
  | .txPub k => edValid k
  | .mergeMining d h => d < 2^64 && h.length == 32
  | .addKeys ks => ks.all edValid
  | _ => true

def toSpec : SubField → Spec.Extra.Field
  | .padding n => .padding n
  | .txPub k => .pubkey k
  | .nonce n => .nonce n
  | .mergeMining d h => .mergeMining d h
  | .addKeys ks => .additional ks
  | .minerGate d => .minergate d

def dumpSpecField : Spec.Extra.Field → String
  | .padding n => s!"P{n}"
  | .pubkey k => "K" ++ hx k
  | .nonce n => "N" ++ hx n
  | .mergeMining d h => s!"M{d}:" ++ hx h
  | .additional ks => s!"A{ks.length}:" ++ hx ks.flatten
  | .minergate d => "G" ++ hx d
def dumpSpec (fs : List Spec.Extra.Field) : String :=
  if fs.isEmpty then "-" else ",".intercalate (fs.map dumpSpecField)

def showParsed (p : Parsed) : String :=
  let flag := if p.err then "err" else "ok"
  let tk := match txPubkey p.fields with | some k => hx k | none => "none"
  let ak := match txAdditionalPubkeys p.fields with | some ks => s!"{ks.length}:" ++ hx ks.flatten | none => "none"
  s!"{flag} {p.fields.length} {dump p.fields} pre={dump p.pre} | txkey={tk} addkeys={ak}"

end Drv.C16

namespace Drv
open Drv.C16
def stepC16 : Step
  | ["c16_parse", h] => some (showParsed (tryParse edValid (Hex.decode h)), "-")
  | ["c16_subfield", h] =>
    some ((match subFieldStrict edValid (Hex.decode h) with | some sf => "ok " ++ dumpField sf | none => "err"), "-")
  | ["c16_okpre", h] =>
    let b := Hex.decode h
    let p := tryParse edValid b
    let (ok, fs) := Spec.Extra.parse edValid b
    some (s!"{if p.err then "err" else "ok"} pre={dump p.pre}", s!"{if ok then "ok" else "err"} pre={dumpSpec fs}")
  | ["c16_rawparse", h] =>
    let fs := rawTryParse edValid (Hex.decode h)
    some (s!"{fs.length} {dump fs}", "-")
  | ["c16_subfield_rt", d, suf] =>
    -- C02 for the sub-field codec: bytes, reported length, partial parse of bytes ++ suffix, strict parse of bytes
    match parseField d with
    | none => some ("bad-desc", "-")
    | some f =>
      if ¬ constructible f then some ("bad-desc", "-") else
      let b := encSub f
      let all := b ++ Hex.decode suf
      let partialRes := match subFieldRd edValid all with
        | (some g, rest) => s!"{all.length - rest.length}:{if g == f then "eq" else "ne"}"
        | (none, _) => "err"
      let strict := match subFieldStrict edValid b with | some g => (if g == f then "eq" else "ne") | none => "err"
      some (s!"{Hex.encode b} {b.length} {partialRes} {strict}", "-")
  | ["c16_ser", d] =>
    match parseDump d with
    | none => some ("err", "err")
    | some fs =>
      if fs.all constructible then
        some ((match toRaw fs with | some b => Hex.encode b | none => "PANIC"),
              Hex.encode (Spec.Extra.serialise (fs.map toSpec)))
      else some ("err", "err")
  | _ => none
end Drv
