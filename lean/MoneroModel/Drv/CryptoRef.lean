import MoneroModel.Model.Crypto
import MoneroModel.Ref.Ed25519
import MoneroModel.Ref.Keccak
/-! The reference instance of `CryptoOps` used by the compiled driver. -/
namespace Drv
open Monero
/-- `PublicKey::from_slice` acceptance: RFC 8032 strict decoding whose re-encoding is the input -/
def decodeKey (b : Bytes) : Option Ed.Pt :=
  match Ed.decodePt b with
  | some p => if Ed.encodePt p == b then some p else none
  | none => none
def refOps : CryptoOps Ed.Pt :=
  { add := Ed.add, sub := Ed.sub, smul := Ed.smul, base := Ed.G, enc := Ed.encodePt, dec := decodeKey,
    keccak := Keccak.keccak256, l := Ed.l }
end Drv
