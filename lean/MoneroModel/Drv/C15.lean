import MoneroModel.Drv.Util
import MoneroModel.Model.AmountText
import MoneroModel.Spec.Decimal
open Monero
/-! C15 driver step. Operations
* `c15_parse <u|s> <Denom> <hex utf8>`        → `ok <int>` | `err`   (`from_str_in`; spec: `Spec.Decimal.specParse`)
* `c15_parse_denom <u|s> <hex utf8>`          → `ok <int>` | `err`   (`from_str_with_denomination` = `FromStr`)
* `c15_fmt <u|s> <Denom> <int>`               → hex of `to_string_in`
* `c15_fmt_denom <u|s> <Denom> <int>`         → hex of `to_string_with_denomination`
* `c15_display <u|s> <int>`                   → hex of `format!("{}", a)` (`Display`; model `AmtText.display`, spec: 12 decimals + ` xmr`)
* `c15_display_flags <u|s> <flag> <int>`      → hex of `format!` with a format spec carrying flags (precision, width, alignment, fill, sign,
                                               zero padding, `#`; also `to_string()` and `write!`); the library consults no flag, so model and
                                               spec are those of `c15_display` whatever `<flag>` is
* `c15_denom <hex utf8>`                      → `<Denom>` | `err`    (`Denomination::from_str`; model: generated table, spec: `denomOfName`)
* `c15_fmt_after_fail <u|s> <Denom> <c|b><k> <int1> <int2>` → the three formatted forms of `int2` after `int1` was formatted into a failing sink
* `c15_parse_after_fail <u|s> <Denom> <hex bad> <hex good>` → `from_str_in` of `good` after `bad` was parsed (result ignored)
The spec side never touches the model or the generated tables. -/
namespace Drv
def denomOfStr : String → Option Denom
  | "Monero" => some .Monero | "Millinero" => some .Millinero | "Micronero" => some .Micronero
  | "Nanonero" => some .Nanonero | "Piconero" => some .Piconero | _ => none
def showDenom : Denom → String
  | .Monero => "Monero" | .Millinero => "Millinero" | .Micronero => "Micronero" | .Nanonero => "Nanonero" | .Piconero => "Piconero"
def signedOfStr : String → Option Bool | "u" => some false | "s" => some true | _ => none
def showExI : Except AmtText.PErr Int → String | .ok v => s!"ok {v}" | .error _ => "err"
def showOptI : Option Int → String | some v => s!"ok {v}" | none => "err"

def stepC15 : Step := fun toks =>
  match toks with
  | ["c15_parse", ty, d, h] => do
    let signed ← signedOfStr ty; let d ← denomOfStr d
    let b := Hex.decode h
    pure (showExI (AmtText.fromStrIn signed b d), showOptI (Spec.Decimal.specParse signed (Spec.Decimal.decimals d) b))
  | ["c15_parse_denom", ty, h] => do
    let signed ← signedOfStr ty
    let b := Hex.decode h
    pure (showExI (AmtText.fromStrWithDenomination signed b), showOptI (Spec.Decimal.specParseWithDenomination signed b))
  | ["c15_fmt", ty, d, a] => do
    let signed ← signedOfStr ty; let d ← denomOfStr d; let a ← a.toInt?
    pure (Hex.encode (AmtText.toStringIn signed a d), Hex.encode (Spec.Decimal.specFormat (Spec.Decimal.decimals d) a))
  | ["c15_fmt_denom", ty, d, a] => do
    let signed ← signedOfStr ty; let d ← denomOfStr d; let a ← a.toInt?
    pure (Hex.encode (AmtText.toStringWithDenomination signed a d), Hex.encode (Spec.Decimal.specFormatWithDenomination d a))
  | ["c15_fmt_after_fail", ty, d, _mode, _a1, a2] => do
    -- the model is a function of its arguments: what was formatted before (into a failing sink) cannot matter
    let signed ← signedOfStr ty; let d ← denomOfStr d; let a ← a2.toInt?
    pure (s!"{Hex.encode (AmtText.toStringIn signed a d)} {Hex.encode (AmtText.toStringWithDenomination signed a d)} {Hex.encode (AmtText.display signed a)}",
          s!"{Hex.encode (Spec.Decimal.specFormat (Spec.Decimal.decimals d) a)} {Hex.encode (Spec.Decimal.specFormatWithDenomination d a)} {Hex.encode (Spec.Decimal.specFormatWithDenomination .Monero a)}")
  | ["c15_parse_after_fail", ty, d, _bad, good] => do
    let signed ← signedOfStr ty; let d ← denomOfStr d
    let b := Hex.decode good
    pure (showExI (AmtText.fromStrIn signed b d), showOptI (Spec.Decimal.specParse signed (Spec.Decimal.decimals d) b))
  | ["c15_display", ty, a] => do
    let signed ← signedOfStr ty; let a ← a.toInt?
    pure (Hex.encode (AmtText.display signed a), Hex.encode (Spec.Decimal.specFormatWithDenomination .Monero a))
  | ["c15_display_flags", ty, _flag, a] => do
    -- the two `Display` impls write through the formatter without consulting its flags: the flag is not an argument of the model
    let signed ← signedOfStr ty; let a ← a.toInt?
    pure (Hex.encode (AmtText.display signed a), Hex.encode (Spec.Decimal.specFormatWithDenomination .Monero a))
  | ["c15_denom", h] =>
    let b := Hex.decode h
    some ((match AmtText.denomFromStr b with | .ok d => showDenom d | .error _ => "err"),
          (match Spec.Decimal.denomOfName b with | some d => showDenom d | none => "err"))
  | _ => none

end Drv
