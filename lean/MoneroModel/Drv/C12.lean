import MoneroModel.Drv.Util
import MoneroModel.Drv.C20
import MoneroModel.Model.Address
import MoneroModel.Model.Keys
import MoneroModel.Spec.Address
import MoneroModel.Ref.Base58
import MoneroModel.Ref.Keccak
import MoneroModel.Ref.Ed25519
open Monero
/-! Driver step of C12. Model side: `Monero.Address.*` with `H := Keccak.keccak256` and `validKey := Keys.publicAccept`, the
model of `PublicKey::from_slice` (dalek decompress – recompress – compare). Spec side: `Spec.Address.*` (layout by the book, `Spec.tag`,
`Base58` reference) with `validKey :=` "RFC 8032 decoding succeeds". Text travels as the hex of its UTF-8 bytes. -/
namespace Drv
namespace C12
def H : Bytes → Bytes := Keccak.keccak256
/-- `PublicKey::from_slice` as the library computes it (Model/Keys.lean, the model of C13): length 32, dalek's PERMISSIVE
decompress (y taken modulo p, sign applied by negation), compress again, compare the bytes. The spec side below uses the
strict RFC 8032 decoder, so relations B and C run two different predicates; `C13_public_eq_reference` and
`C12_parse_is_monero_ed25519` prove them equal. -/
def validKey (k : Bytes) : Bool := Keys.publicAccept k
/-- by the book: the 32 bytes are the RFC 8032 encoding of a curve point -/
def validKeySpec (k : Bytes) : Bool := (Ed.decodePt k).isSome

def optHex : Option (List UInt8) → String | none => "fmt-err" | some s => Hex.encode s
def showModel : Option Address → String
  | none => "err"
  | some a => s!"ok {showNet a.net} {showKind a.kind} {Hex.encode a.spend} {Hex.encode a.view} {Hex.encode a.pid} {Hex.encode (Address.asBytes H a)} {optHex (Address.toStr H a)}"
def showSpec : Option (Net × Kind × Bytes × Bytes × Bytes) → String
  | none => "err"
  | some (n, k, s, v, p) => s!"ok {showNet n} {showKind k} {Hex.encode s} {Hex.encode v} {Hex.encode p} {Hex.encode (Spec.Address.blob H n k s v p)} {Hex.encode (Spec.Address.text H n k s v p)}"
/-- the arguments of a formatting op, ungated: the address the arguments describe (`none` = malformed operation line) -/
def mkAddr (n k s v p : String) : Option Address := do
  let n ← netOfStr n; let k ← kindOfStr k
  pure ⟨n, k, Hex.decode p, Hex.decode s, Hex.decode v⟩
/-- "the constructors can build it": both keys pass the given key test and the payment id has 8 bytes exactly for integrated
addresses. Each column of the formatting ops applies this gate with ITS OWN key test (`validKey` on the model side,
`validKeySpec` on the spec side), so a disagreement of the two key predicates is visible on the formatting ops too. -/
def constructible (vk : Bytes → Bool) (a : Address) : Bool :=
  vk a.spend && vk a.view && a.pid.length == (if a.kind = .Integrated then 8 else 0)
end C12
open C12 in
def stepC12 : Step := fun toks =>
  match toks with
  | ["c12_from_bytes", h] =>
    let b := Hex.decode h
    some (showModel (Address.fromBytes H validKey b), showSpec (Spec.Address.parse H validKeySpec b))
  | ["c12_from_str", h] =>
    let s := Hex.decode h
    some (showModel (Address.fromStr H validKey s), showSpec (Spec.Address.parseText H validKeySpec s))
  | ["c12_from_hex", h] =>
    let s := Hex.decode h
    some (showModel (Address.fromHex H validKey s), showSpec (Spec.Address.parseHex H validKeySpec s))
  | ["c12_fmt", n, k, s, v, p] => do
    let a ← mkAddr n k s v p
    pure ((if constructible validKey a then s!"{Hex.encode (Address.asBytes H a)} {optHex (Address.toStr H a)}" else "err"),
      (if constructible validKeySpec a then
        s!"{Hex.encode (Spec.Address.blob H a.net a.kind a.spend a.view a.pid)} {Hex.encode (Spec.Address.text H a.net a.kind a.spend a.view a.pid)}"
       else "err"))
  | ["c12_forms", n, k, s, v, p] => do
    let a ← mkAddr n k s v p
    let blob := Spec.Address.blob H a.net a.kind a.spend a.view a.pid
    pure ((if constructible validKey a then s!"{Hex.encode (Address.asHex H a)} {Hex.encode (Address.consensusEncode H a)}" else "err"),
      (if constructible validKeySpec a then s!"{Hex.encode (Spec.Address.hexOf blob)} {Hex.encode (UInt8.ofNat blob.length :: blob)}" else "err"))
  | ["c12_b58_enc", h] =>
    let b := Hex.decode h
    some ((match B58.encode b with | none => "err" | some s => Hex.encode s), Hex.encode (Base58.encode b))
  | ["c12_b58_dec", h] =>
    let s := Hex.decode h
    let sh : Option Bytes → String | none => "err" | some b => "ok " ++ Hex.encode b
    some (sh (B58.decode s), sh (Base58.decode s))
  | ["c12_consensus_dec", h] =>
    let b := Hex.decode h
    some ((match Address.consensusDecode H validKey b with
            | none => "err" | some (a, rest) => s!"ok {b.length - rest.length} {Hex.encode (Address.asBytes H a)}"),
          (match Spec.Address.parseConsensus H validKeySpec b with
            | none => "err" | some ((n, k, s, v, p), used) => s!"ok {used} {Hex.encode (Spec.Address.blob H n k s v p)}"))
  | _ => none
end Drv
