import MoneroModel.Drv.Util
import MoneroModel.Model.AmountArith
open Monero
namespace Drv
def arithOfStr : String → Option Arith | "add" => some .add | "sub" => some .sub | "mul" => some .mul | "div" => some .div | "rem" => some .rem | _ => none
def showOI : Option Int → String | none => "none" | some v => s!"some {v}"
def showRes : Res → String | .val v => s!"val {v}" | .panic => "panic"
def showPlain : PlainRes → String | .val v => s!"val {v}" | .overflowPanic => "panic(overflow-check)"
/-- exact integer arithmetic by the book: the result iff representable and the divisor is non-zero -/
def specArith (signed : Bool) (op : Arith) (a b : Int) : Option Int :=
  let t := if signed then TyI64 else TyU64
  match op with
  | .add => t.chk (a + b) | .sub => t.chk (a - b) | .mul => t.chk (a * b)
  | .div => if b = 0 then none else t.chk (Int.tdiv a b)
  | .rem => if b = 0 then none else t.chk (Int.tmod a b)
def stepC18 : Step := fun toks =>
  match toks with
  | [form, ty, op, a, b] => do
    let signed ← (if ty == "s" then some true else if ty == "u" then some false else none)
    let op ← arithOfStr op; let a ← a.toInt?; let b ← b.toInt?
    let sp := specArith signed op a b
    if form == "amt_chk" then
      pure ((match amtChecked signed op a b with | some r => showOI r | none => "unmodelled"), showOI sp)
    else if form == "amt_op" then
      pure ((match amtOperator signed op a b with | some r => showRes r | none => "unmodelled"), (match sp with | some v => s!"val {v}" | none => "panic"))
    else if form == "amt_asg" then
      pure ((match amtAssign signed op a b with | some r => showRes r | none => "unmodelled"), (match sp with | some v => s!"val {v}" | none => "panic"))
    else none
  | ["amt_to_signed", a] => do let a ← a.toInt?; pure (showOI (toSigned a), showOI (if a ≤ 2^63 - 1 then some a else none))
  | ["amt_to_unsigned", a] => do let a ← a.toInt?; pure (showOI (toUnsigned a), showOI (if 0 ≤ a then some a else none))
  | ["amt_possub", a, b] => do
    let a ← a.toInt?; let b ← b.toInt?
    pure ((match positiveSub a b with | some r => showOI r | none => "unmodelled"), showOI (if 0 ≤ b ∧ b ≤ a then some (a - b) else none))
  -- `abs` in the harness build (overflow checks on). Model: plain `i64::abs`, whose panic at MIN is the compiler's overflow check.
  -- Spec: the exact value wherever it exists; at MIN the property's text has no clause (`abs` is not one of its operations), so no
  -- spec-side comparison is made there — what the library does at MIN is recorded as an observation (DESIGN 14.10), and a WRAPPED
  -- value coming back in this build is caught by the model column and by the harness' direct check.
  | ["amt_abs", a] => do let a ← a.toInt?; pure (showPlain (absPlain true a), (if a = -(2^63) then "-" else s!"val {a.natAbs}"))
  -- std's `i64::wrapping_abs`, which is what `i64::abs` computes in a build without overflow checks (std documentation of `abs`):
  -- validates `absPlain false` (model column) against std; the spec column is the closed form
  | ["amt_abs_nochk", a] => do let a ← a.toInt?; pure (showPlain (absPlain false a), (if a = -(2^63) then s!"val {a}" else s!"val {a.natAbs}"))
  | ["amt_checked_abs", a] => do let a ← a.toInt?; pure (showOI (checkedAbs a), showOI (if a = -(2^63) then none else some (a.natAbs : Int)))
  | ["amt_signum", a] => do let a ← a.toInt?; pure (toString (signum a), toString (Int.sign a))
  | _ => none

end Drv
