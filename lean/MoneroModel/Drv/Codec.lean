import MoneroModel.Drv.Util
import MoneroModel.Model.Len
open Monero
/-! Driver for the consensus codec (C01/C02): `c01_dec <T> [params] <hex>` → `err` | `ok <consumed> <re-encoded hex> <len>`
(primitive types `u8…u64 i8…i64 bool rcttype`: a fifth field, the decoded VALUE of the model — decimal, `-` in front of negatives,
`true`/`false`, the RingCT type's number — so that the reading of the bytes, e.g. two's complement, is compared and not only the re-encoding) -/
namespace Drv

def showDecL {α} (b : Bytes) (enc : α → Bytes) (len : α → Nat) (r : Option (α × Bytes)) : String :=
  match r with
  | none => "err"
  | some (x, rest) => s!"ok {b.length - rest.length} {Hex.encode (enc x)} {len x}"
def showDec {α} (b : Bytes) (enc : α → Bytes) (r : Option (α × Bytes)) : String :=
  showDecL b enc (fun x => (enc x).length) r

/-- like `showDec`, with the decoded value as a fifth field -/
def showDecV {α} (b : Bytes) (enc : α → Bytes) (shw : α → String) (r : Option (α × Bytes)) : String :=
  match r with
  | none => "err"
  | some (x, rest) => s!"ok {b.length - rest.length} {Hex.encode (enc x)} {(enc x).length} {shw x}"
def showNat (n : Nat) : String := toString n
/-- decimal with a leading `-` for negatives (what Rust's `to_string` prints for `iN`) -/
def showInt (i : Int) : String := match i with | .ofNat n => toString n | .negSucc n => "-" ++ toString (n + 1)
def showBool (v : Bool) : String := if v then "true" else "false"

/-- `deserialize` (strict) through the model's `strict`: `err` | `ok <re-encoded hex>` -/
def showStrict {α} (enc : α → Bytes) (r : Option α) : String :=
  match r with
  | none => "err"
  | some x => s!"ok {Hex.encode (enc x)}"

def strictByName (t : String) (b : Bytes) : Option String :=
  let utf8 := fun (bs : Bytes) => (String.fromUTF8? (ByteArray.mk bs.toArray)).isSome
  match t with
  | "tx" => some (showStrict encTx (strict tx b))
  | "prefix" => some (showStrict encPrefix (strict prefix' b))
  | "txin" => some (showStrict encTxIn (strict txin b))
  | "txout" => some (showStrict encTxOut (strict txout b))
  | "target" => some (showStrict encTarget (strict target b))
  | "block" => some (showStrict encBlock (strict block b))
  | "header" => some (showStrict encHeader (strict header b))
  | "bp" => some (showStrict encBP (strict bp b))
  | "bpp" => some (showStrict encBPP (strict bpp b))
  | "vec_varint" => some (showStrict (encVec encVarint) (strict (vec sizes.varint varint) b))
  | "vec_key" => some (showStrict (encVec id) (strict (vec sizes.key key) b))
  | "box_key" => some (showStrict (encVec id) (strict (vec sizes.key key) b))
  | "vec_u8" => some (showStrict (encVec (fun x => [x])) (strict (vec sizes.u8 u8) b))
  | "string" => some (showStrict encString (strict (stringDec utf8) b))
  | "vec_txin" => some (showStrict (encVec encTxIn) (strict (vec sizes.txin txin) b))
  | "vec_txout" => some (showStrict (encVec encTxOut) (strict (vec sizes.txout txout) b))
  | "rcttype" => some (showStrict encRctType (strict rctType b))
  | "key" => some (showStrict id (strict key b))
  | "u32" => some (showStrict (encUintLE 4) (strict (uintLE 4) b))
  | _ => none

def decByName (t : String) (b : Bytes) : Option String :=
  match t with
  | "tx" => some (showDecL b encTx lenTx (tx b))
  | "prefix" => some (showDecL b encPrefix lenPrefix (prefix' b))
  | "txin" => some (showDecL b encTxIn lenTxIn (txin b))
  | "txout" => some (showDecL b encTxOut lenTxOut (txout b))
  | "target" => some (showDecL b encTarget lenTarget (target b))
  | "block" => some (showDecL b encBlock lenBlock (block b))
  | "header" => some (showDecL b encHeader lenHeader (header b))
  | "key" => some (showDec b id (key b))
  | "hash8" => some (showDec b id (takeN 8 b))
  | "sig" => some (showDec b id (signature b))
  | "key64" => some (showDec b id (key64 b))
  | "rangesig" => some (showDec b id (rangeSig b))
  | "bp" => some (showDecL b encBP lenBP (bp b))
  | "bpp" => some (showDecL b encBPP lenBPP (bpp b))
  | "u8" => some (showDecV b (encUintLE 1) showNat (uintLE 1 b))
  | "u16" => some (showDecV b (encUintLE 2) showNat (uintLE 2 b))
  | "u32" => some (showDecV b (encUintLE 4) showNat (uintLE 4 b))
  | "u64" => some (showDecV b (encUintLE 8) showNat (uintLE 8 b))
  | "vec_varint" => some (showDec b (encVec encVarint) (vec sizes.varint varint b))
  | "vec_key" => some (showDec b (encVec id) (vec sizes.key key b))
  | "vec_u8" => some (showDec b (encVec (fun x => [x])) (vec sizes.u8 u8 b))
  | "string" => some (showDecL b encString lenString (stringDec (fun bs => (String.fromUTF8? (ByteArray.mk bs.toArray)).isSome) b))
  | "vec_txin" => some (showDec b (encVec encTxIn) (vec sizes.txin txin b))
  | "vec_txout" => some (showDec b (encVec encTxOut) (vec sizes.txout txout b))
  | "rcttype" => some (showDecV b encRctType showNat (rctType b))
  | "bool" => some (showDecV b encBool showBool (boolDec b))
  | "i8" => some (showDecV b (encIntLE 1) showInt (intLE 1 b))
  | "i16" => some (showDecV b (encIntLE 2) showInt (intLE 2 b))
  | "i32" => some (showDecV b (encIntLE 4) showInt (intLE 4 b))
  | "i64" => some (showDecV b (encIntLE 8) showInt (intLE 8 b))
  -- `Box<[T]>` (encode.rs:537-564) is a separately written copy of the `Vec<T>` codec; `Vec<Hash>`, `MultisigOut { c : Vec<Key> }`
  | "box_key" => some (showDec b (encVec id) (vec sizes.key key b))
  | "vec_hash" => some (showDec b (encVec id) (vec sizes.key key b))
  | "msout" => some (showDec b (encVec id) (vec sizes.key key b))
  | "box_u8" => some (showDec b (encVec (fun x => [x])) (vec sizes.u8 u8 b))
  | "box_varint" => some (showDec b (encVec encVarint) (vec sizes.varint varint b))
  | "klrki" => some (showDec b id (klrki b))
  | _ => none

def stepCodec : Step
  | ["c01_dec", t, h] => (decByName t (Hex.decode h)).map fun m => (m, "-")
  | ["c01_strict", t, h] => (strictByName t (Hex.decode h)).map fun m => (m, "-")
  | ["c01_dec_base", i, o, h] => do
    let i ← i.toNat?; let o ← o.toNat?
    let b := Hex.decode h
    pure (showDecL b encBase lenBase (base i o b), "-")
  | ["c01_dec_prun", ty, i, o, m, h] => do
    let ty ← ty.toNat?; let i ← i.toNat?; let o ← o.toNat?; let m ← m.toNat?
    let b := Hex.decode h
    pure (showDecL b (fun p => match p with | none => [] | some p => encPrunable p ty)
      (fun p => match p with | none => 0 | some p => lenPrunable p ty) (prunable ty i o m b), "-")
  | ["c02_bpp_count", n] => do
    let n ← n.toNat?
    -- a BulletproofPlus transaction with `n` (empty-vector) proofs, one coinbase input, no outputs
    let z32 : Bytes := List.replicate 32 0
    let t : Tx := ⟨⟨2, 0, [.gen 1], [], []⟩, [], some ⟨6, 0, [], [], []⟩,
      some ⟨[], [], List.replicate n ⟨List.replicate 192 0, [], []⟩, [], [⟨[z32], z32, z32⟩], [z32]⟩⟩
    let m := match tx (encTx t) with
      | some (t', []) => (match t'.prun with | some p => s!"ok {p.bpps.length}" | none => "ok none")
      | _ => "err"
    pure (m, s!"ok {n}")
  | _ => none
end Drv
