import MoneroModel.Util.Hex
import MoneroModel.Basic
/-! Helpers shared by the per-property driver modules. A step function maps the tokens of one operation line to
`(model result, spec result)`; `-` means "this operation has no model / no spec side". -/
abbrev Step := List String → Option (String × String)
def showOptNN (o : Option (Nat × Nat)) : String := match o with | none => "err" | some (n, k) => s!"ok {n} {k}"
