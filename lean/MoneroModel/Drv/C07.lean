import MoneroModel.Drv.Util
import MoneroModel.Drv.CryptoRef
import MoneroModel.Model.Scan
import MoneroModel.Model.Keys
import MoneroModel.Spec.Sender
import MoneroModel.Spec.Amounts
open Monero Monero.Scan
/-! Driver step for C07 (output scanning) and C08 (amount recovery).

Result text of a scan: `err <NoTxPublicKey|MissingEcdhInfo|MissingCommitment|InvalidCommitment>` or
`ok <n> <entry>…` with one entry per owned output, in output order:
`<index>:<major>/<minor>:<matched tx key hex>:<amount|none>:<mask hex|none>:<commitment hex|none>:<output key hex>/<tag hex|->/<clear amount>`
(`OwnedTxOut::{index, sub_index, tx_pubkey, amount, blinding_factor, commitment, out}`).

* `c07_scan <v> <S> <majLo> <majHi> <minLo> <minHi> <tx hex>` — model: `Monero.tx` (strict) then
  `Scan.checkOutputsTx` over the reference curve; spec side `-` (what the sender meant is not in the bytes).
* `c07_scan_pb <v> <S> <majLo> <majHi> <minLo> <minHi> <prefix hex> <base>` — `TransactionPrefix::check_outputs` with an
  explicitly given `RctSigBase`: `<base>` = `none` | `<type 0..6>:<ecdh,…|->:<commitment,…|->` (ecdh items of 64 bytes are
  `Standard{mask,amount}`, of 8 bytes `Bulletproof{amount}`; list lengths are free, so `MissingEcdhInfo` /
  `MissingCommitment` are reachable). Spec side `-`.
* `c07_check <v> <S> <majLo> <majHi> <minLo> <minHi> <n> <P> <R>` → `none` | `<major>/<minor>`: `SubKeyChecker::new(..).check(n, P, R)`
  (the harness also calls `check_with_key_generator` and reports `CHECK-DIFFER` if they disagree). Model: `Checker.check` on
  `Checker.new`; spec: by the book — the LAST index of the ranges (major-then-minor order) whose address spend key `S'` satisfies
  `P = Hs(8·v·R ‖ n)·G + S'` (`Spec.Sender`).
* `c08_open <v> <S> <R> <n> <ecdh 64|8 bytes> <commitment>` → `none` | `ok <amount> <mask hex> <commitment hex>`:
  `EcdhInfo::open_commitment` on the permissively decompressed commitment (`none` also when it does not decompress).
  Model: `Scan.openCommitment`; spec: Monero's `ecdhDecode` by the book (Spec/Amounts.lean) followed by the check
  `y·G + a·H = C` with RFC 8032 arithmetic.
* `c07_scenario <seed> <majLo> <majHi> <minLo> <minHi> <ver> <rct> <main> <extra> <T> <fill> <out>…` → `<h> <scan result>`
  where `<h>` = first 8 bytes of Keccak(serialized prefix ‖ serialized base) of the transaction BUILT from the description:
  the harness builds it with its own sender on dalek and scans it with the library; here the transaction is built with
  `Spec.Sender` / `Spec.Amounts` over the reference curve, the model side scans it with `Scan.checkOutputsPrefix`, and the
  spec side is the owned set expected from the description alone (no scanning). Grammar in `Scen` below. -/
namespace Drv.C07

def hx (b : Bytes) : String := Hex.encode b
/-- dalek's permissive `CompressedEdwardsY::decompress` on 32 bytes -/
def decP (b : Bytes) : Option Ed.Pt := if b.length = 32 then Keys.decompressDalek (Ed.leNat b) else none

def errName : ScanErr → String
  | .noTxPublicKey => "NoTxPublicKey"
  | .missingEcdhInfo => "MissingEcdhInfo"
  | .missingCommitment => "MissingCommitment"
  | .invalidCommitment => "InvalidCommitment"

def showOpt (o : Option String) : String := o.getD "none"
/-- `OwnedTxOut::out()`: output key, view tag, clear amount -/
def showOut (key : Bytes) (tag : Option UInt8) (amount : Nat) : String :=
  s!"{hx key}/{match tag with | none => "-" | some t => hx [t]}/{amount}"
def showEntry (index major minor : Nat) (key : Bytes) (amount : Option Nat) (mask : Option Nat) (comm : Option Bytes)
    (out : String) : String :=
  s!"{index}:{major}/{minor}:{hx key}:{showOpt (amount.map toString)}:{showOpt (mask.map fun m => hx (scalarBytes m))}:{showOpt (comm.map hx)}:{out}"
def showOwned (w : Owned) : String :=
  showEntry w.index w.sub.1 w.sub.2 w.txKey w.amount w.blindingFactor w.commitment
    (match w.out.target with | .key k => showOut k none w.out.amount | .tagged k t => showOut k (some t) w.out.amount)
def showEntries (es : List String) : String := " ".intercalate (s!"ok {es.length}" :: es)
def showScan : Except ScanErr (List Owned) → String
  | .error e => "err " ++ errName e
  | .ok ws => showEntries (ws.map showOwned)

def scalarOf (h : String) : Option Nat :=
  let b := Hex.decode h
  if b.length = 32 ∧ leNat b < Ed.l then some (leNat b) else none

def splitList (s : String) : List String := if s == "-" then [] else s.splitOn ","

def parseEcdh (h : String) : Option Ecdh :=
  let b := Hex.decode h
  if b.length = 64 then some (.std (b.take 32) (b.drop 32)) else if b.length = 8 then some (.bp b) else none

def parseBase (s : String) : Option (Option Base) :=
  if s == "none" then some none else
  match s.splitOn ":" with
  | [ty, es, pks] => do
    let ty ← ty.toNat?
    let es ← (splitList es).mapM parseEcdh
    some (some ⟨ty, 0, [], es, (splitList pks).map Hex.decode⟩)
  | _ => none

/-! ### c08_open, specification side -/
def refPrims : Spec.Sender.Prims Ed.Pt :=
  { add := Ed.add, smul := Ed.smul, G := Ed.G, enc := Ed.encodePt, keccak := Keccak.keccak256, l := Ed.l }

/-- the second generator: the hash-to-point of G as published in Monero's `rctTypes.h` (`H`), RFC 8032 decoding -/
def specH : Ed.Pt :=
  (Ed.decodePt (Hex.decode "8b655970153799af2aeadc9ff1add0ea6c7251d54154cfa92c173a0dd39c1f94")).getD Ed.zero

/-- the point a 32-byte commitment denotes under the permissive reading (bit 255 = sign, y taken modulo p, a "negative
zero" x is zero), written on top of RFC 8032 decoding; `none` if y is not the ordinate of a curve point -/
def specPoint (b : Bytes) : Option Ed.Pt :=
  if b.length ≠ 32 then none else
  let k := Ed.leNat b
  match Ed.decompress ((k % 2 ^ 255) % Ed.p) with
  | none => none
  | some Q => some (if k / 2 ^ 255 = 1 then Ed.neg Q else Q)

def specOpen (v : Nat) (R : Ed.Pt) (n : Nat) (ecdh : Bytes) (C : Ed.Pt) : Option (Nat × Nat × Bytes) :=
  let D := Spec.Sender.derivation refPrims v R
  let k := Spec.Sender.derivationScalar refPrims D n
  let (a, y) := if ecdh.length = 64 then Spec.Amounts.legacyDecode refPrims k (ecdh.take 32) (ecdh.drop 32)
                else Spec.Amounts.compactDecode refPrims k ecdh
  if Ed.eqPt (Spec.Amounts.commitment refPrims specH y a) C then some (a, y, Ed.encodePt C) else none

def showOpen (o : Option (Nat × Nat × Bytes)) : String :=
  match o with | none => "none" | some (a, y, c) => s!"ok {a} {hx (scalarBytes y)} {hx c}"

/-! ### c07_check, specification side -/
/-- by the book: the indices of the ranges in the order major-then-minor; the last one whose address spend key fits wins -/
def specCheck (v : Nat) (S : Ed.Pt) (a b c d : Nat) (n : Nat) (P R : Ed.Pt) : Option (Nat × Nat) :=
  let D := Spec.Sender.derivation refPrims v R
  let idxs := (List.range (b - a)).flatMap fun i => (List.range (d - c)).map fun j => (a + i, c + j)
  (idxs.filter fun ij =>
    Ed.eqPt (Spec.Sender.oneTimeKey refPrims D (Spec.Sender.destAt refPrims v S ij.1 ij.2).spend n) P).getLast?
def showIdx (o : Option (Nat × Nat)) : String := match o with | none => "none" | some (i, j) => s!"{i}/{j}"

/-! ### scenarios

`<seed>` 8 bytes hex; every secret is `sc c i = Hs(seed ‖ c ‖ i_le32)` for a label character `c`:
wallet `v = sc 'v' 0`, `s = sc 's' 0`; foreign wallet `sc 'V' 0`, `sc 'S' 0`; main sender secret `sc 'r' 0`; per-output secret
`sc 'a' i`; unrelated additional key `sc 'u' i • G`; second tx pubkey `sc 'q' 0 • G`; second additional list `sc 'b' i • G`;
mask `sc 'y' i`; unrelated output key `sc 'x' i • G`.
`<ver>` 1|2; `<rct>` `n` (no RctSigBase: version 1, or version 2 without inputs) | `0`..`6`;
`<main>` = `g` (R = r·G) | `s<i>/<j>` (R = r·S'(i,j) of this wallet), optionally `+<k>` (k·T added to the published key);
`<extra>` letters, one sub-field each, in order: `K` main key, `A` additional keys (one per output), `H` additional keys
(first ⌊n/2⌋ only), `S` additional keys one short (first n−1 only), `L` additional keys one too many (the n keys, then an
unrelated one), `N` nonce 010203, `Q` unrelated tx pubkey, `B` unrelated additional list, `Z` byte 07 (unknown tag),
`P` padding 000000; `<T>` a point of order 8; `<fill>` the 32 bytes used as output key of filler outputs;
`<out>` = `g.<count>` (filler run) | `X` (unrelated valid key) | `<dest>.<deriv>.<tag>.<shift>.<amount>[.<corrupt>]` with
dest `P` (this wallet's primary address) | `F` (foreign wallet) | `S<i>/<j>`; deriv `m` (main secret) | `a` | `a<k>` (own
secret, published as additional key, plus k·T) | `b<k>` (main secret, and the additional key at this position is the main
key plus k·T: both keys address the output, the main key has priority); tag `t` right | `n` absent | wrong: `w` +1, `v` −1,
`x` xor 0x80, `y` xor 0x01, `z` 0 (128 if the right tag is 0), `f` 255 (127 if the right tag is 255); shift: the position the sender used
is index+shift; corrupt `t` (the output key is the honest one-time key PLUS the small-order point `<T>`: not ours) | `e` (ecdh amount bit 0) | `k` (legacy ecdh mask bit 0) | `c` (commitment bit 0) | `a` (RingCT output whose CLEAR amount field is
non-zero, 77 + position: the reported amount must still be the opened one) | `0` / `1` / `L` (nothing is corrupted: in the legacy
RingCT types the sender's mask is 0 / 1 / l−1 instead of a random one; with amount 0 and mask 0 the commitment is the identity) |
`x` ("cross-key amounts": the one-time key and the tag come from this output's key as usual, but the ecdh field and the mask are
encoded under the shared scalar of the OTHER transaction key of the position — deriv `m` / `b<k>`: the per-output secret `sc 'a' i`,
published (deriv `m`) as the additional key of the position for the same destination; deriv `a` / `a<k>`: the main secret, whose key
the wallet reads as `8·v·(r·B + k·T) = 8·r·(v·B)`, `B` the base of the main key. The commitment does not open under the key that
matches the output: an owned one makes the scan `err InvalidCommitment`; nothing is retried with the other key). -/
namespace Scen
open Spec.Sender hiding Bytes
open Spec.Amounts

inductive DestK | primary | foreign | sub (i j : Nat)
  deriving DecidableEq
structure Real where
  dest : DestK
  own : Bool          -- deriv a
  tors : Nat
  both : Option Nat   -- deriv b<k>
  tag : Char
  shift : Nat
  amount : Nat
  corrupt : Char      -- '-' none
inductive OutD | fill | unrelated | real (r : Real)

def parseIdx (s : String) : Option (Nat × Nat) :=
  match s.splitOn "/" with
  | [a, b] => do some ((← a.toNat?), (← b.toNat?))
  | _ => none

def parseDest (s : String) : Option DestK :=
  if s == "P" then some .primary else if s == "F" then some .foreign else
  match s.toList with
  | 'S' :: r => (parseIdx (String.ofList r)).map fun (i, j) => .sub i j
  | _ => none

def parseOut (s : String) : Option (List OutD) :=
  match s.splitOn "." with
  | ["X"] => some [.unrelated]
  | ["g", n] => n.toNat?.map fun n => List.replicate n .fill
  | d :: der :: tag :: sh :: am :: rest => do
    let dest ← parseDest d
    let (own, tors, both) ← (match der.toList with
      | ['m'] => some (false, 0, none)
      | ['a'] => some (true, 0, none)
      | ['a', c] => if c.isDigit then some (true, c.toNat - 48, none) else none
      | ['b', c] => if c.isDigit then some (false, 0, some (c.toNat - 48)) else none
      | _ => none)
    let tag ← tag.toList.head?
    let sh ← sh.toNat?
    let am ← am.toNat?
    let cor := match rest with | [c] => c.toList.headD '-' | _ => '-'
    some [.real ⟨dest, own, tors, both, tag, sh, am, cor⟩]
  | _ => none

structure Hdr where
  seed : Bytes
  majLo : Nat
  majHi : Nat
  minLo : Nat
  minHi : Nat
  ver : Nat
  rct : Option Nat
  mainSub : Option (Nat × Nat)
  mainTors : Nat
  extra : List Char
  T : Ed.Pt
  fill : Bytes

def sc (seed : Bytes) (c : Char) (i : Nat) : Nat := hs refPrims (seed ++ [UInt8.ofNat c.toNat] ++ u32le i)
def G : Ed.Pt := Ed.G
def encG : Bytes := Ed.encodePt Ed.G
def enc (p : Ed.Pt) : Bytes := Ed.encodePt p
def torsion (T : Ed.Pt) (k : Nat) (X : Ed.Pt) : Ed.Pt := if k = 0 then X else Ed.add X (Ed.smul k T)
def flip0 (b : Bytes) : Bytes := match b with | [] => [] | x :: r => (x ^^^ 1) :: r
/-- the tag byte written for a tag letter, given the right tag -/
def tagByte (c : Char) (right : UInt8) : Option UInt8 :=
  if c == 'n' then none else if c == 'w' then some (right + 1) else if c == 'v' then some (right - 1)
  else if c == 'x' then some (right ^^^ 0x80) else if c == 'y' then some (right ^^^ 0x01)
  else if c == 'z' then some (if right == 0 then 128 else 0) else if c == 'f' then some (if right == 255 then 127 else 255)
  else some right
def tagIsWrong (c : Char) : Bool := c == 'w' || c == 'v' || c == 'x' || c == 'y' || c == 'z' || c == 'f'
/-- "corrupt" letters that corrupt nothing: the sender's mask (legacy types; the compact mask is derived) is forced to 0 / 1 / l−1 -/
def forcedMask (c : Char) : Option Nat := if c == '0' then some 0 else if c == '1' then some 1 else if c == 'L' then some (Ed.l - 1) else none

/-- what the sender writes for one output: (clear amount, key, tag, additional key, ecdh, commitment), and what the
receiver is expected to report for it if it is recognised: (subaddress index, is-own-derivation, mask) -/
structure Built where
  amount : Nat
  key : Bytes
  tag : Option UInt8
  addKey : Bytes
  ecdh : Option Ecdh
  comm : Bytes
  expect : Option ((Nat × Nat) × Bool × Nat × Bytes)   -- index, own, mask, honest commitment
  corrupt : Bool

def destOf (h : Hdr) (v : Nat) (S : Ed.Pt) (d : DestK) : Dest Ed.Pt × Option (Nat × Nat) :=
  match d with
  | .primary => (primaryDest refPrims v S, some (0, 0))
  | .sub i j => (destAt refPrims v S i j, some (i, j))
  | .foreign => (primaryDest refPrims (sc h.seed 'V' 0) (Ed.smul (sc h.seed 'S' 0) G), none)

def legacy (h : Hdr) : Bool := match h.rct with | some t => 1 ≤ t ∧ t ≤ 3 | none => false
def compact (h : Hdr) : Bool := match h.rct with | some t => 4 ≤ t | none => false
def ringct (h : Hdr) : Bool := legacy h || compact h

def dummyEcdh (h : Hdr) : Option Ecdh :=
  if legacy h then some (.std (List.replicate 32 0) (List.replicate 32 0))
  else if compact h then some (.bp (List.replicate 8 0)) else none

def inRange (h : Hdr) (idx : Nat × Nat) : Bool :=
  h.majLo ≤ idx.1 && idx.1 < h.majHi && h.minLo ≤ idx.2 && idx.2 < h.minHi

/-- the base of the main transaction key: G or S'(mainSub) -/
def mainBase (h : Hdr) (v : Nat) (S : Ed.Pt) : Ed.Pt :=
  match h.mainSub with | none => G | some (i, j) => (destAt refPrims v S i j).spend
/-- the point of the main transaction key the sender publishes: r·G or r·S'(mainSub), plus mainTors·T -/
def mainPoint (h : Hdr) (v : Nat) (S : Ed.Pt) : Ed.Pt :=
  torsion h.T h.mainTors (Ed.smul (sc h.seed 'r' 0) (mainBase h v S))

def buildOut (h : Hdr) (v : Nat) (S : Ed.Pt) (pos : Nat) (o : OutD) : Built :=
  let unrelatedAdd := fun (_ : Unit) => enc (Ed.smul (sc h.seed 'u' pos) G)
  match o with
  | .fill => ⟨0, h.fill, none, encG, dummyEcdh h, h.fill, none, false⟩
  | .unrelated => ⟨0, enc (Ed.smul (sc h.seed 'x' pos) G), none, unrelatedAdd (), dummyEcdh h, h.fill, none, false⟩
  | .real r =>
    let (d, idx?) := destOf h v S r.dest
    let secret := if r.own then sc h.seed 'a' pos else sc h.seed 'r' 0
    let n := pos + r.shift
    let key := enc (if r.corrupt == 't' then Ed.add (sendKey refPrims secret d n) h.T else sendKey refPrims secret d n)
    let rightTag := sendTag refPrims secret d n
    let tag := tagByte r.tag rightTag
    let addKey := if r.own then enc (torsion h.T r.tors (txKey refPrims secret d)) else
      match r.both with
      | some k => enc (torsion h.T k (mainPoint h v S))
      | none =>
        -- corrupt `x` with deriv `m`: the additional key of this position is the sender's `a` key for the same destination
        if r.corrupt == 'x' then enc (txKey refPrims (sc h.seed 'a' pos) d) else unrelatedAdd ()
    -- the shared scalar the amount is encoded under: this output's own one, or (corrupt `x`) the OTHER key's of the position
    let k :=
      if r.corrupt != 'x' then derivationScalar refPrims (derivation refPrims secret d.view) n
      else if r.own then derivationScalar refPrims (derivation refPrims (sc h.seed 'r' 0) (Ed.smul v (mainBase h v S))) n
      else derivationScalar refPrims (derivation refPrims (sc h.seed 'a' pos) d.view) n
    let y := if compact h then compactMask refPrims k else
      match forcedMask r.corrupt with | some m => m | none => sc h.seed 'y' pos
    let C := enc (commitment refPrims specH y r.amount)
    let ecdh : Option Ecdh :=
      if legacy h then
        let (m, a) := legacyEncode refPrims k y r.amount
        some (.std (if r.corrupt == 'k' then flip0 m else m) (if r.corrupt == 'e' then flip0 a else a))
      else if compact h then
        let a := compactEncode refPrims k r.amount
        some (.bp (if r.corrupt == 'e' || r.corrupt == 'k' then flip0 a else a))
      else none
    let comm := if ringct h then (if r.corrupt == 'c' then flip0 C else C) else h.fill
    let recognisable := r.shift == 0 && r.corrupt != 't' && !tagIsWrong r.tag &&
      (match idx? with | some idx => inRange h idx | none => false)
    ⟨if ringct h then (if r.corrupt == 'a' then 77 + pos else 0) else r.amount, key, tag, addKey, ecdh, comm,
      if recognisable then idx?.map fun idx => (idx, r.own, y, C) else none,
      ringct h && r.corrupt != '-' && r.corrupt != 'a' && r.corrupt != 't' && (forcedMask r.corrupt).isNone⟩

def zipIdx {α} (l : List α) : List (Nat × α) := (List.range l.length).zip l

def varintB (n : Nat) : Bytes := Spec.leb128 n

structure Tx where
  outs : List Built
  mainKey : Bytes
  extra : Bytes
  /-- the key the scanner takes as transaction key (first K/Q), and whether it is the sender's -/
  firstKey : Option (Bytes × Bool)
  /-- number of leading positions whose additional key is the sender's (first A/H/B field) -/
  addCover : Nat

def build (h : Hdr) (outs : List OutD) : Tx :=
  let v := sc h.seed 'v' 0
  let S := Ed.smul (sc h.seed 's' 0) G
  let bs := (zipIdx outs).map fun (pos, o) => buildOut h v S pos o
  let n := bs.length
  let r := sc h.seed 'r' 0
  let mainBase := match h.mainSub with | none => G | some (i, j) => (destAt refPrims v S i j).spend
  let mainKey := enc (torsion h.T h.mainTors (Ed.smul r mainBase))
  let addList := bs.map (·.addKey)
  let field : Char → Bytes := fun c =>
    match c with
    | 'K' => 1 :: mainKey
    | 'Q' => 1 :: enc (Ed.smul (sc h.seed 'q' 0) G)
    | 'A' => 4 :: varintB n ++ addList.flatten
    | 'H' => 4 :: varintB (n / 2) ++ (addList.take (n / 2)).flatten
    | 'B' => 4 :: varintB n ++ ((List.range n).map fun i => enc (Ed.smul (sc h.seed 'b' i) G)).flatten
    | 'S' => 4 :: varintB (n - 1) ++ (addList.take (n - 1)).flatten
    | 'L' => 4 :: varintB (n + 1) ++ addList.flatten ++ enc (Ed.smul (sc h.seed 'b' n) G)
    | 'N' => [2, 3, 1, 2, 3]
    | 'Z' => [7]
    | 'P' => [0, 0, 0]
    | _ => []
  let firstKey := (h.extra.find? fun c => c == 'K' || c == 'Q').map fun c =>
    if c == 'K' then (mainKey, true) else (enc (Ed.smul (sc h.seed 'q' 0) G), false)
  let addCover := match h.extra.find? fun c => c == 'A' || c == 'H' || c == 'B' || c == 'S' || c == 'L' with
    | some 'A' => n | some 'L' => n | some 'H' => n / 2 | some 'S' => n - 1 | _ => 0
  ⟨bs, mainKey, (h.extra.map field).flatten, firstKey, addCover⟩

/-- the expected result from the description alone -/
def expected (h : Hdr) (t : Tx) (outs : List OutD) : String :=
  match t.firstKey with
  | none => "err NoTxPublicKey"
  | some (_, mainIsSenders) =>
    let cands := (zipIdx (t.outs.zip outs)).filterMap fun (pos, (b, o)) =>
      match b.expect, o with
      | some (idx, own, y, C), .real r =>
        let fits := !own &&
          (match r.dest with
           | .primary => h.mainSub.isNone
           | .sub i j => if i == 0 && j == 0 then h.mainSub.isNone else h.mainSub == some (i, j)
           | .foreign => false)
        let mainFits := mainIsSenders && fits
        let addFits := (own || (r.both.isSome && fits)) && pos < t.addCover
        if mainFits then some (pos, idx, t.mainKey, b, r, y, C)
        else if addFits then some (pos, idx, b.addKey, b, r, y, C) else none
      | _, _ => none
    if cands.any fun (_, _, _, b, _, _, _) => b.corrupt then "err InvalidCommitment" else
    showEntries (cands.map fun (pos, idx, K, b, r, y, C) =>
      if ringct h then showEntry pos idx.1 idx.2 K (some r.amount) (some y) (some C) (showOut b.key b.tag b.amount)
      else showEntry pos idx.1 idx.2 K (if r.amount = 0 then none else some r.amount) none none (showOut b.key b.tag b.amount))

/-- the transaction as model values -/
def toModel (h : Hdr) (t : Tx) : Prefix × Option Base :=
  let outs := t.outs.map fun b => (⟨b.amount, match b.tag with | none => .key b.key | some tg => .tagged b.key tg⟩ : TxOut)
  let ins : List TxIn := if h.ver = 1 then [.gen 1] else match h.rct with | none => [] | some _ => [.gen 1]
  let base : Option Base := match h.rct with
    | none => none
    | some 0 => some ⟨0, 0, [], [], []⟩
    | some ty => some ⟨ty, 0, [], t.outs.filterMap (·.ecdh), t.outs.map (·.comm)⟩
  (⟨h.ver, 0, ins, outs, t.extra⟩, base)

def parseMain (s : String) : Option (Option (Nat × Nat) × Nat) :=
  let (b, k) := match s.splitOn "+" with | [b, k] => (b, k.toNat?.getD 0) | _ => (s, 0)
  if b == "g" then some (none, k) else
  match b.toList with
  | 's' :: r => (parseIdx (String.ofList r)).map fun ij => (some ij, k)
  | _ => none

/-- C09 through the scanner: `OwnedTxOut::recover_key` (= `KeyRecoverer::new(keys, tx_pubkey).recover(index, sub_index)`)
on every output the scan model reports, with the wallet's spend secret -/
def showRecover (v s : Nat) : Except ScanErr (List Owned) → String
  | .error e => "err " ++ errName e
  | .ok ws => " ".intercalate (s!"ok {ws.length}" :: ws.map fun w =>
      match Drv.decodeKey w.txKey with
      | some R => s!"{w.index}:{hx (scalarBytes (recoverKey Drv.refOps v s R w.index w.sub.1 w.sub.2))}"
      | none => s!"{w.index}:bad-key")

def run (recover : Bool) (toks : List String) : Option (String × String) :=
  match toks with
  | seed :: a :: b :: c :: d :: ver :: rct :: main :: extra :: T :: fill :: outs => do
    let a ← a.toNat?; let b ← b.toNat?; let c ← c.toNat?; let d ← d.toNat?
    let ver ← ver.toNat?
    let rct ← if rct == "n" then some none else rct.toNat?.map some
    let (mainSub, mainTors) ← parseMain main
    let T ← Drv.decodeKey (Hex.decode T)
    let h : Hdr := ⟨Hex.decode seed, a, b, c, d, ver, rct, mainSub, mainTors, extra.toList, T, Hex.decode fill⟩
    let ods := (← outs.mapM parseOut).flatten
    let t := build h ods
    let (p, base) := toModel h t
    let ser := encPrefix p ++ (match base with | none => [] | some bb => encBase bb)
    let hash := hx ((Keccak.keccak256 ser).take 8)
    let v := sc h.seed 'v' 0
    let S := Ed.smul (sc h.seed 's' 0) G
    let scan := checkOutputsPrefix Drv.refOps decP p v S a b c d base
    if recover then some (hash ++ " " ++ showRecover v (sc h.seed 's' 0) scan, "-")
    else some (hash ++ " " ++ showScan scan, hash ++ " " ++ expected h t ods)
  | _ => none
end Scen
end Drv.C07

namespace Drv
open Drv.C07
def stepC07 : Step
  | ["c07_scan", v, s, a, b, c, d, h] => do
    let a ← a.toNat?; let b ← b.toNat?; let c ← c.toNat?; let d ← d.toNat?
    let r := (do
      let v ← scalarOf v
      let S ← decodeKey (Hex.decode s)
      match Monero.tx (Hex.decode h) with
      | some (t, []) => some (showScan (checkOutputsTx refOps decP t v S a b c d))
      | _ => none : Option String)
    some (r.getD "bad-input", "-")
  | ["c07_scan_pb", v, s, a, b, c, d, h, base] => do
    let a ← a.toNat?; let b ← b.toNat?; let c ← c.toNat?; let d ← d.toNat?
    let r := (do
      let v ← scalarOf v
      let S ← decodeKey (Hex.decode s)
      let base ← parseBase base
      match Monero.prefix' (Hex.decode h) with
      | some (p, []) => some (showScan (checkOutputsPrefix refOps decP p v S a b c d base))
      | _ => none : Option String)
    some (r.getD "bad-input", "-")
  | ["c07_check", v, s, a, b, c, d, n, p, r] => do
    let a ← a.toNat?; let b ← b.toNat?; let c ← c.toNat?; let d ← d.toNat?; let n ← n.toNat?
    let res := (do
      let v ← scalarOf v
      let S ← decodeKey (Hex.decode s)
      let P ← decodeKey (Hex.decode p)
      let R ← decodeKey (Hex.decode r)
      some (showIdx ((Checker.new refOps v S a b c d).check refOps n P R), showIdx (specCheck v S a b c d n P R)) : Option (String × String))
    some (res.getD ("bad-input", "bad-input"))
  | ["c08_open", v, _s, r, n, e, cm] => do
    let n ← n.toNat?
    let res := (do
      let v ← scalarOf v
      let R ← decodeKey (Hex.decode r)
      let ecdh ← parseEcdh e
      let model := match decP (Hex.decode cm) with
        | none => none
        | some C => (openCommitment refOps decP ecdh v R n C).map fun o => (o.amount, o.mask, o.commitment)
      let spec := match specPoint (Hex.decode cm) with
        | none => none
        | some C => specOpen v R n (Hex.decode e) C
      some (showOpen model, showOpen spec) : Option (String × String))
    some (res.getD ("bad-input", "bad-input"))
  | "c07_scenario" :: rest => some ((Scen.run false rest).getD ("bad-input", "bad-input"))
  | "c09_scenario" :: rest => some ((Scen.run true rest).getD ("bad-input", "-"))
  | _ => none
end Drv
