import MoneroModel.Drv.C12
import MoneroModel.Drv.C13
import MoneroModel.Drv.C15
import MoneroModel.Drv.C16
import MoneroModel.Model.Block
import MoneroModel.Model.Panics
import MoneroModel.Model.Ledger
open Monero
/-! Driver for C04: `c04_ops <entry> <hex>` → `ok` | `err`: does the entry point's MODEL accept the input? The models are total
functions, so the model never answers "panic", "abort" or "timeout"; any such answer of the implementation is a
mismatch. Entries without a model have model side `-` (they are still run, isolated, by the harness).
`c04_dec …`: the public decoders with caller-chosen `usize` counts (the prunable one through the panic-explicit model).
`c04_ledger …`: the MEASURED peak heap of a parse-only run of the real decoder (a number in the line) is held to the peak of the
allocation ledger (`(rtx b).peak` … of Model/Ledger.lean, the object of `C04_alloc_bound_*`) plus a stated slack. -/
namespace Drv
def okE (b : Bool) : String := if b then "ok" else "err"
def validUtf8 (b : Bytes) : Bool := (String.fromUTF8? (ByteArray.mk b.toArray)).isSome

/-- the ledger's peak for an entry point on `b` -/
def ledgerPeak (entry : String) (b : Bytes) : Option Nat :=
  match entry with
  | "tx" => some (rtx b).peak
  | "block" => some (rblock b).peak
  | "prefix" => some (rprefix b).peak
  | "varint" => some (rvarint b).peak
  | _ => none
def ledgerAnswer (measured peak slack : Nat) : String :=
  if measured ≤ peak + slack then "ok" else s!"LEDGER-EXCEEDED ledger={peak} slack={slack}"

def stepC04 : Step
  -- `c04_ledger big <family> <n> <measured>`: the input is `0xff^n`, built (in the harness child, and here) from (family, n); the
  -- measurement covers the whole child operation, so the slack is the input buffer itself plus 1 KiB
  | ["c04_ledger", "big", fam, n, measured] =>
    match n.toNat?, measured.toNat? with
    | some n, some m =>
      let b : Bytes := List.replicate n 0xff
      let entry := match fam with | "varint_ff" => "varint" | "tx_ff" => "tx" | "block_ff" => "block" | _ => "?"
      (ledgerPeak entry b).map fun p => (ledgerAnswer m p (n + 1024), "-")
    | _, _ => none
  -- `c04_ledger hex <entry> <measured> <hex>`: the measurement brackets the `deserialize` call alone; slack 256 bytes (error values)
  | ["c04_ledger", "hex", entry, measured, h] =>
    match measured.toNat? with
    | some m => (ledgerPeak entry (Hex.decode h)).map fun p => (ledgerAnswer m p 256, "-")
    | none => none
  | ["c04_ops", entry, h] =>
    let b := Hex.decode h
    let m : Option String := match entry with
      | "tx" => some (okE (strict tx b).isSome)
      | "block" => some (okE (strict block b).isSome)
      | "prefix" => some (okE (strict prefix' b).isSome)
      | "extra" => some (okE (!(Extra.tryParse C16.edValid b).err))
      | "subfield" => some (okE (Extra.subFieldStrict C16.edValid b).isSome)
      | "address_bytes" => some (okE (Address.fromBytes C12.H C12.validKey b).isSome)
      | "address_str" => some (okE (validUtf8 b && (Address.fromStr C12.H C12.validKey b).isSome))
      | "address_hex" => some (okE (Address.fromHex C12.H C12.validKey b).isSome)
      | "addrtype" => some (okE (Net.all.any fun n => (addrTypeOf n b).isSome))
      | "pubkey_bytes" => some (okE (Keys.publicAccept b))
      | "seckey_bytes" => some (okE (Keys.secretAccept b))
      | "pubkey_str" => some (okE (validUtf8 b && (Keys.publicFromStr (C13.asciiChars b)).isSome))
      | "seckey_str" => some (okE (validUtf8 b && (Keys.secretFromStr (C13.asciiChars b)).isSome))
      | "amount_str" => some (okE (validUtf8 b && (match AmtText.fromStrWithDenomination false b with | .ok _ => true | .error _ => false)))
      | "samount_str" => some (okE (validUtf8 b && (match AmtText.fromStrWithDenomination true b with | .ok _ => true | .error _ => false)))
      | "amount_xmr" => some (okE (validUtf8 b && (match AmtText.fromStrIn false b .Monero with | .ok _ => true | .error _ => false)))
      | "samount_pico" => some (okE (validUtf8 b && (match AmtText.fromStrIn true b .Piconero with | .ok _ => true | .error _ => false)))
      | "denomination" => some (okE (validUtf8 b && (match AmtText.denomFromStr b with | .ok _ => true | .error _ => false)))
      | "hash_hex" => some (okE (match HexM.decode (Address.stripPrefix0x b) with | some x => x.length == 32 | none => false))
      | "paymentid_hex" => some (okE (match HexM.decode (Address.stripPrefix0x b) with | some x => x.length == 8 | none => false))
      | "hash_str" => some "-"
      | _ => none
    m.map fun x => (x, "-")
  -- large inputs built inside the harness child: isolation checks only (no panic / abort / timeout, heap bound); the `*_ff` families
  -- are additionally held to the ledger by a `c04_ledger big` line
  | ["c04_big", _, _, _] => some ("-", "-")
  | ["c04_dec", "base", i, o, h] =>
    match i.toNat?, o.toNat? with
    | some i, some o => some (okE (base i o (Hex.decode h)).isSome, "-")
    | _, _ => none
  | ["c04_dec", "prunable", ty, i, o, mx, h] =>
    match ty.toNat?, i.toNat?, o.toNat?, mx.toNat? with
    | some ty, some i, some o, some mx =>
      -- the panic-explicit model answers. Since the fix commit the column count is `inputs.saturating_add(1)` and `prunableP` has no
      -- panic outcome on any argument (`C04_no_panic_prunable`), so the `MODEL-PANIC` arm is dead on the present tree; it is kept
      -- because the model's column count follows the operator read from the source (a source that goes back to `1 + inputs`
      -- makes the model panic at `inputs = usize::MAX`, where the library panics too)
      some ((match Panics.prunableP ty i o mx (Hex.decode h) with | .ok _ => "ok" | .err => "err" | .panic s => "MODEL-PANIC " ++ s), "-")
    | _, _, _, _ => none
  | ["c04_dec", "sized", el, n, h] =>
    match n.toNat? with
    | none => none
    | some n =>
      let b := Hex.decode h
      match el with
      | "key" => some (okE (sizedVec sizes.key key n b).isSome, "-")
      | "hash" => some (okE (sizedVec sizes.key key n b).isSome, "-")
      | "u8" => some (okE (sizedVec sizes.u8 u8 n b).isSome, "-")
      | "txin" => some (okE (sizedVec sizes.txin txin n b).isSome, "-")
      | "txout" => some (okE (sizedVec sizes.txout txout n b).isSome, "-")
      | "varint" => some (okE (sizedVec sizes.varint varint n b).isSome, "-")
      | _ => none
  | _ => none
end Drv
