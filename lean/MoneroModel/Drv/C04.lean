import MoneroModel.Drv.C12
import MoneroModel.Drv.C13
import MoneroModel.Drv.C15
import MoneroModel.Drv.C16
import MoneroModel.Model.Block
import MoneroModel.Model.Panics
open Monero
/-! Driver for C04: `c04_ops <entry> <hex>` → `ok` | `err`: does the entry point's MODEL accept the input? The models are total
functions, so the model never answers "panic", "abort" or "timeout"; any such answer of the implementation is a
mismatch. Entries without a model have model side `-` (they are still run, isolated, by the harness). -/
namespace Drv
def okE (b : Bool) : String := if b then "ok" else "err"
def validUtf8 (b : Bytes) : Bool := (String.fromUTF8? (ByteArray.mk b.toArray)).isSome

def stepC04 : Step
  | ["c04_ops", entry, h] =>
    let b := Hex.decode h
    let m : Option String := match entry with
      | "tx" => some (okE (strict tx b).isSome)
      | "block" => some (okE (strict block b).isSome)
      | "prefix" => some (okE (strict prefix' b).isSome)
      | "extra" => some (okE (!(Extra.tryParse C16.edValid b).err))
      | "address_bytes" => some (okE (Address.fromBytes C12.H C12.validKey b).isSome)
      | "address_str" => some (okE (validUtf8 b && (Address.fromStr C12.H C12.validKey b).isSome))
      | "address_hex" => some (okE (Address.fromHex C12.H C12.validKey b).isSome)
      | "addrtype" => some (okE (Net.all.any fun n => (addrTypeOf n b).isSome))
      | "pubkey_bytes" => some (okE (Keys.publicAccept b))
      | "seckey_bytes" => some (okE (Keys.secretAccept b))
      | "pubkey_str" => some (okE (validUtf8 b && (Keys.publicFromStr (C13.asciiChars b)).isSome))
      | "seckey_str" => some (okE (validUtf8 b && (Keys.secretFromStr (C13.asciiChars b)).isSome))
      | "amount_str" => some (okE (validUtf8 b && (match AmtText.fromStrWithDenomination false b with | .ok _ => true | .error _ => false)))
      | "samount_str" => some (okE (validUtf8 b && (match AmtText.fromStrWithDenomination true b with | .ok _ => true | .error _ => false)))
      | "amount_xmr" => some (okE (validUtf8 b && (match AmtText.fromStrIn false b .Monero with | .ok _ => true | .error _ => false)))
      | "samount_pico" => some (okE (validUtf8 b && (match AmtText.fromStrIn true b .Piconero with | .ok _ => true | .error _ => false)))
      | "denomination" => some (okE (validUtf8 b && (match AmtText.denomFromStr b with | .ok _ => true | .error _ => false)))
      | "hash_hex" => some (okE (match HexM.decode (Address.stripPrefix0x b) with | some x => x.length == 32 | none => false))
      | "paymentid_hex" => some (okE (match HexM.decode (Address.stripPrefix0x b) with | some x => x.length == 8 | none => false))
      | "hash_str" => some "-"
      | _ => none
    m.map fun x => (x, "-")
  -- the public decoders with `usize` parameters: the PANIC-EXPLICIT models answer (`1 + inputs` is a checked usize addition)
  -- large inputs built inside the harness child: isolation checks only (no panic / abort / timeout, heap bound), no model side
  | ["c04_big", _, _, _] => some ("-", "-")
  | ["c04_dec", "base", i, o, h] =>
    match i.toNat?, o.toNat? with
    | some i, some o => some (okE (base i o (Hex.decode h)).isSome, "-")
    | _, _ => none
  | ["c04_dec", "prunable", ty, i, o, mx, h] =>
    match ty.toNat?, i.toNat?, o.toNat?, mx.toNat? with
    | some ty, some i, some o, some mx =>
      some ((match Panics.prunableP ty i o mx (Hex.decode h) with | .ok _ => "ok" | .err => "err" | .panic s => "MODEL-PANIC " ++ s), "-")
    | _, _, _, _ => none
  | ["c04_dec", "sized", el, n, h] =>
    match n.toNat? with
    | none => none
    | some n =>
      let b := Hex.decode h
      match el with
      | "key" => some (okE (sizedVec sizes.key key n b).isSome, "-")
      | "hash" => some (okE (sizedVec sizes.key key n b).isSome, "-")
      | "u8" => some (okE (sizedVec sizes.u8 u8 n b).isSome, "-")
      | "txin" => some (okE (sizedVec sizes.txin txin n b).isSome, "-")
      | "txout" => some (okE (sizedVec sizes.txout txout n b).isSome, "-")
      | "varint" => some (okE (sizedVec sizes.varint varint n b).isSome, "-")
      | _ => none
  | _ => none
end Drv
