import MoneroModel.Drv.Util
import MoneroModel.Model.Tags
import MoneroModel.Spec.Tags
open Monero
namespace Drv
def netOfStr : String → Option Net | "Mainnet" => some .Mainnet | "Testnet" => some .Testnet | "Stagenet" => some .Stagenet | _ => none
def kindOfStr : String → Option Kind | "Standard" => some .Standard | "Integrated" => some .Integrated | "SubAddress" => some .SubAddress | _ => none
def showNet : Net → String | .Mainnet => "Mainnet" | .Testnet => "Testnet" | .Stagenet => "Stagenet"
def showKind : Kind → String | .Standard => "Standard" | .Integrated => "Integrated" | .SubAddress => "SubAddress"
def showAddrType : Option (Kind × Bytes) → String
  | none => "err" | some (k, pid) => if k = .Integrated then s!"ok Integrated {Hex.encode pid}" else s!"ok {showKind k}"
/-- address-type lookup by the book: the first byte must be a tag of the requested network -/
def specAddrType (net : Net) (b : Bytes) : Option (Kind × Bytes) :=
  match b with
  | [] => none
  | t :: _ => match Spec.untag t.toNat with
    | some (n, k) => if n ≠ net then none else if k = .Integrated then (if b.length < 73 then none else some (k, (b.drop 65).take 8)) else some (k, [])
    | none => none

def stepC20 : Step := fun toks =>
  match toks with
  | ["net_tag", n, k] => do
    let n ← netOfStr n; let k ← kindOfStr k
    pure ((match asU8 n k with | some t => toString t | none => "err"), toString (Spec.tag n k))
  | ["net_of", b] => do
    let b ← b.toNat?
    pure ((match fromU8 b with | some n => "ok " ++ showNet n | none => "err"), (match Spec.untag b with | some (n, _) => "ok " ++ showNet n | none => "err"))
  | ["addrtype", n, h] => do
    let n ← netOfStr n
    let b := Hex.decode h
    pure (showAddrType (addrTypeOf n b), showAddrType (specAddrType n b))
  | _ => none

end Drv
