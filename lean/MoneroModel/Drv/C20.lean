import MoneroModel.Drv.Util
import MoneroModel.Model.Tags
import MoneroModel.Spec.Tags
open Monero
namespace Drv
def netOfStr : String → Option Net | "Mainnet" => some .Mainnet | "Testnet" => some .Testnet | "Stagenet" => some .Stagenet | _ => none
def kindOfStr : String → Option Kind | "Standard" => some .Standard | "Integrated" => some .Integrated | "SubAddress" => some .SubAddress | _ => none
def showNet : Net → String | .Mainnet => "Mainnet" | .Testnet => "Testnet" | .Stagenet => "Stagenet"
def showKind : Kind → String | .Standard => "Standard" | .Integrated => "Integrated" | .SubAddress => "SubAddress"
def showAddrType : Option (Kind × Bytes) → String
  | none => "err" | some (k, pid) => if k = .Integrated then s!"ok Integrated {Hex.encode pid}" else s!"ok {showKind k}"
/-- address-type lookup by the book: `Spec.addrType` (Spec/Tags.lean; `C20_type_total` proves the model equal to it) -/
def specAddrType (net : Net) (b : Bytes) : Option (Kind × Bytes) := Spec.addrType net b

def stepC20 : Step := fun toks =>
  match toks with
  | ["net_tag", n, k] => do
    let n ← netOfStr n; let k ← kindOfStr k
    pure ((match asU8 n k with | some t => toString t | none => "err"), toString (Spec.tag n k))
  | ["net_tag", n, "Integrated", pid] => do
    -- the payment id carried by `Integrated` is an argument of `as_u8`; neither the model nor the book looks at it
    let n ← netOfStr n
    if (Hex.decode pid).length ≠ 8 then none else
    pure ((match asU8 n .Integrated with | some t => toString t | none => "err"), toString (Spec.tag n .Integrated))
  | ["net_of", b] => do
    let b ← b.toNat?
    pure ((match fromU8 b with | some n => "ok " ++ showNet n | none => "err"), (match Spec.untag b with | some (n, _) => "ok " ++ showNet n | none => "err"))
  | ["addrtype", n, h] => do
    let n ← netOfStr n
    let b := Hex.decode h
    pure (showAddrType (addrTypeOf n b), showAddrType (specAddrType n b))
  | _ => none

end Drv
