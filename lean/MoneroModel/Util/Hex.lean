/-! Hex and decimal helpers for the line protocol (driver only; not used by any theorem). -/
namespace Hex
def nib (c : Char) : Nat :=
  if c.isDigit then c.toNat - 48 else if 'a' ≤ c ∧ c ≤ 'f' then c.toNat - 87 else c.toNat - 55
/-- "-" is the empty string -/
def decode (s : String) : List UInt8 :=
  if s == "-" then [] else
  let rec go : List Char → List UInt8 → List UInt8
    | a :: b :: t, acc => go t (UInt8.ofNat (nib a * 16 + nib b) :: acc)
    | _, acc => acc.reverse
  go s.toList []
def digits : Array Char := #['0','1','2','3','4','5','6','7','8','9','a','b','c','d','e','f']
def encode (bs : List UInt8) : String :=
  if bs.isEmpty then "-" else
  String.ofList (bs.foldr (fun b acc => digits[b.toNat / 16]! :: digits[b.toNat % 16]! :: acc) [])
end Hex
