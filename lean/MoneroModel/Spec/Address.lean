import MoneroModel.Spec.Tags
import MoneroModel.Ref.Base58
/-! Reference: what a Monero address *is* (cryptonote_basic_impl.cpp `get_account_address_as_str`,
`get_account_integrated_address_as_str`, `get_account_address_from_str`), written by hand, independent of /repo,
of the model and of the generated tables.

  blob  = varint(tag) ‖ spend key (32) ‖ view key (32) ‖ [payment id (8), integrated only] ‖ Keccak256(all before)[0..4]
  text  = Monero base58 (blob)

(all nine tags are < 128, so the varint is the single tag byte). A blob denotes an address iff it has exactly this shape
with a known tag, two valid public keys and the right checksum. `H` and `validKey` are parameters. -/
namespace Spec.Address
abbrev Bytes := List UInt8

/-- the canonical blob of an address -/
def blob (H : Bytes → Bytes) (n : Net) (k : Kind) (spend view pid : Bytes) : Bytes :=
  let body := UInt8.ofNat (Spec.tag n k) :: (spend ++ view ++ pid)
  body ++ (H body).take 4
/-- the canonical text of an address -/
def text (H : Bytes → Bytes) (n : Net) (k : Kind) (spend view pid : Bytes) : List UInt8 :=
  Base58.encode (blob H n k spend view pid)

/-- which address, if any, a blob denotes: `(network, type, spend, view, payment id)` -/
def parse (H : Bytes → Bytes) (validKey : Bytes → Bool) (b : Bytes) : Option (Net × Kind × Bytes × Bytes × Bytes) :=
  match b with
  | [] => none
  | t :: rest =>
    match Spec.untag t.toNat with
    | none => none
    | some (n, k) =>
      let pidLen := if k = .Integrated then 8 else 0
      if rest.length ≠ 32 + 32 + pidLen + 4 then none else
      let spend := rest.take 32
      let view := (rest.drop 32).take 32
      let pid := (rest.drop 64).take pidLen
      if !(validKey spend && validKey view) then none else
      if (H (b.take (65 + pidLen))).take 4 ≠ b.drop (65 + pidLen) then none else
      some (n, k, spend, view, pid)

/-- which address a text denotes -/
def parseText (H : Bytes → Bytes) (validKey : Bytes → Bool) (s : List UInt8) : Option (Net × Kind × Bytes × Bytes × Bytes) :=
  match Base58.decode s with | none => none | some b => parse H validKey b
end Spec.Address

namespace Spec.Address
/-- value of a hexadecimal digit, either case -/
def hexDigit (c : UInt8) : Option Nat :=
  let n := c.toNat
  if 48 ≤ n ∧ n ≤ 57 then some (n - 48) else if 97 ≤ n ∧ n ≤ 102 then some (n - 87)
  else if 65 ≤ n ∧ n ≤ 70 then some (n - 55) else none
/-- an even number of hexadecimal digits ↦ bytes -/
def unhexDigits : List UInt8 → Option Bytes
  | [] => some []
  | [_] => none
  | a :: b :: t => match hexDigit a, hexDigit b, unhexDigits t with
    | some x, some y, some r => some (UInt8.ofNat (16 * x + y) :: r)
    | _, _, _ => none
/-- the hex form: an optional `0x`, then the blob in hexadecimal, either case -/
def parseHex (H : Bytes → Bytes) (validKey : Bytes → Bool) (s : List UInt8) : Option (Net × Kind × Bytes × Bytes × Bytes) :=
  let digits := match s with | 48 :: 120 :: t => t | _ => s
  match unhexDigits digits with | none => none | some b => parse H validKey b
/-- lowercase hexadecimal -/
def hexOf (b : Bytes) : List UInt8 :=
  let dig (n : Nat) : UInt8 := UInt8.ofNat (if n < 10 then 48 + n else 87 + n)
  b.flatMap fun x => [dig (x.toNat / 16), dig (x.toNat % 16)]
/-- the consensus form: the blob as a length-prefixed byte string; blobs are shorter than 128 bytes, so the length
is a single byte. Returns the address and the number of bytes consumed. -/
def parseConsensus (H : Bytes → Bytes) (validKey : Bytes → Bool) (b : Bytes) : Option ((Net × Kind × Bytes × Bytes × Bytes) × Nat) :=
  match b with
  | [] => none
  | l :: rest =>
    if l.toNat ≥ 128 ∨ rest.length < l.toNat then none else
    match parse H validKey (rest.take l.toNat) with | none => none | some a => some (a, 1 + l.toNat)
end Spec.Address
