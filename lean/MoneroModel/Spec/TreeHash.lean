import MoneroModel.Spec.Leb128
/-! Reference: the CryptoNote tree hash (Merkle root of a block's transaction identifiers), the proof-of-work blob
and the block identifier, written as mathematical definitions. Independent of the model and of anything generated
from /repo. The hash function is a parameter `H` (Keccak-256 for Monero). Core Lean only.

CryptoNote tree hash of `n ≥ 1` hashes `h₀ … hₙ₋₁`:
* `n = 1`: `h₀`;  `n = 2`: `H(h₀ ‖ h₁)`;
* `n ≥ 3`: let `cnt` be the largest power of two strictly less than `n`. The first `2·cnt − n` hashes are kept,
  the remaining `2·(n − cnt)` hashes are replaced by the hashes of adjacent pairs; this gives exactly `cnt` nodes,
  and the result is the root of the perfect binary hash tree over these `cnt` nodes. -/
namespace Spec
namespace TreeHash

/-- hash adjacent pairs: `[a, b, c, d, …] ↦ [H(a‖b), H(c‖d), …]` -/
def pairUp (H : List UInt8 → List UInt8) : List (List UInt8) → List (List UInt8)
  | a :: b :: t => H (a ++ b) :: pairUp H t
  | _ => []

/-- root of the perfect binary hash tree of height `m` over `2^m` nodes:
a single node is its own root; otherwise `H(root of the left half ‖ root of the right half)` -/
def perfect (H : List UInt8 → List UInt8) : Nat → List (List UInt8) → List UInt8
  | 0, l => l.headD []
  | m+1, l => H (perfect H m (l.take (2^m)) ++ perfect H m (l.drop (2^m)))

/-- exponent of the largest power of two strictly less than `n` (for `n ≥ 2`): `⌊log₂ (n − 1)⌋` -/
def levelBelow (n : Nat) : Nat := Nat.log2 (n - 1)

/-- the CryptoNote tree hash of a non-empty list of hashes (the empty list, which never occurs, gives `[]`) -/
def treeSpec (H : List UInt8 → List UInt8) (hs : List (List UInt8)) : List UInt8 :=
  match hs with
  | [] => []
  | [h] => h
  | [h0, h1] => H (h0 ++ h1)
  | _ =>
    let n := hs.length
    let m := levelBelow n
    let cnt := 2 ^ m
    let keep := 2 * cnt - n
    perfect H m (hs.take keep ++ pairUp H (hs.drop keep))

/-- proof-of-work ("hashable") blob: serialised header ‖ transaction root ‖ varint(number of transactions including
the miner transaction) -/
def powBlob (hdr root : List UInt8) (nTxHashes : Nat) : List UInt8 := hdr ++ root ++ leb128 (nTxHashes + 1)

/-- the identifier that the formula yields for block 202612 of the Monero main chain -/
def computedId202612 : List UInt8 :=
  [0x42, 0x6d, 0x16, 0xcf, 0xf0, 0x4c, 0x71, 0xf8, 0xb1, 0x63, 0x40, 0xb7, 0x22, 0xdc, 0x40, 0x10,
   0xa2, 0xdd, 0x38, 0x31, 0xc2, 0x20, 0x41, 0x43, 0x1f, 0x77, 0x25, 0x47, 0xba, 0x6e, 0x33, 0x1a]
/-- the identifier under which block 202612 is known to the network (historical tree-hash bug) -/
def historicalId202612 : List UInt8 :=
  [0xbb, 0xd6, 0x04, 0xd2, 0xba, 0x11, 0xba, 0x27, 0x93, 0x5e, 0x00, 0x6e, 0xd3, 0x9c, 0x9b, 0xfd,
   0xd9, 0x9b, 0x76, 0xbf, 0x4a, 0x50, 0x65, 0x4b, 0xc1, 0xe1, 0xe6, 0x12, 0x17, 0x96, 0x26, 0x98]

/-- block identifier: `H(varint(|blob|) ‖ blob)`, except for block 202612 -/
def blockIdSpec (H : List UInt8 → List UInt8) (blob : List UInt8) : List UInt8 :=
  let h := H (leb128 blob.length ++ blob)
  if h = computedId202612 then historicalId202612 else h

/-- transaction root, proof-of-work blob and identifier of a block given its serialised header, the hash of its
miner transaction and the listed transaction hashes -/
def blockSpec (H : List UInt8 → List UInt8) (hdr minerTxHash : List UInt8) (txHashes : List (List UInt8)) :
    List UInt8 × List UInt8 × List UInt8 :=
  let root := treeSpec H (minerTxHash :: txHashes)
  let blob := powBlob hdr root txHashes.length
  (root, blob, blockIdSpec H blob)

end TreeHash
end Spec
