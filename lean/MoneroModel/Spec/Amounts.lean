import MoneroModel.Spec.Sender
/-! Reference: how a Monero SENDER hides the amount of a RingCT output and what the receiver is entitled to conclude —
written by the book ("Zero to Monero" 2nd ed. §5.3 amount commitments, §5.3.1–5.3.2 / §6.3 ecdhInfo; monero `rctOps.cpp`
`ecdhEncode` / `ecdhDecode` / `genCommitmentMask` / `ecdhHash`, `rctTypes.h` `d2h` / `h2d`), independent of /repo, of the
model and of the generated constants. The primitives are the record `Spec.Sender.Prims` of the sender specification.

  shared secret           k   = Hs(enc(D) ‖ varint(n))            (the derivation scalar of output n, 32 bytes on the wire)
  commitment              C   = y·G + a·H                           (a < 2^64 the amount, y the mask, H the second generator)
  legacy (types 1–3)      mask' = y + Hs(k),  amount' = a + Hs(Hs(k))   (mod l, each 32 bytes; the second hash is taken over
                                                                     the 32 bytes of the REDUCED first one)
  compact (types 4–6)     y = Hs("commitment_mask" ‖ k),  amount' = a_le8 XOR Keccak("amount" ‖ k)[0..8]

Core Lean only, total. -/
namespace Spec.Amounts
open Spec.Sender

variable {P : Type}

/-- "amount" -/
def amountSalt : Bytes := ascii ['a', 'm', 'o', 'u', 'n', 't']
/-- "commitment_mask" -/
def maskSalt : Bytes := ascii ['c', 'o', 'm', 'm', 'i', 't', 'm', 'e', 'n', 't', '_', 'm', 'a', 's', 'k']

/-- Monero's second generator `H` in compressed form (`rctTypes.h`:
`static const key H = { {0x8b, 0x65, 0x59, 0x70, 0x15, 0x37, 0x99, 0xaf, 0x2a, 0xea, 0xdc, 0x9f, 0xf1, 0xad, 0xd0, 0xea,
0x6c, 0x72, 0x51, 0xd5, 0x41, 0x54, 0xcf, 0xa9, 0x2c, 0x17, 0x3a, 0x0d, 0xd3, 0x9c, 0x1f, 0x94} };`) -/
def moneroH : Bytes :=
  [0x8b, 0x65, 0x59, 0x70, 0x15, 0x37, 0x99, 0xaf, 0x2a, 0xea, 0xdc, 0x9f, 0xf1, 0xad, 0xd0, 0xea,
   0x6c, 0x72, 0x51, 0xd5, 0x41, 0x54, 0xcf, 0xa9, 0x2c, 0x17, 0x3a, 0x0d, 0xd3, 0x9c, 0x1f, 0x94]

/-- Pedersen commitment to amount `a` with mask `y` -/
def commitment (pr : Prims P) (H : P) (y a : Nat) : P := pr.add (pr.smul y pr.G) (pr.smul a H)

/-- `ecdhEncode`, legacy branch: (mask', amount') -/
def legacyEncode (pr : Prims P) (k y a : Nat) : Bytes × Bytes :=
  let s1 := hs pr (scalar32 k)
  let s2 := hs pr (scalar32 s1)
  (scalar32 ((y + s1) % pr.l), scalar32 ((a + s2) % pr.l))

/-- `genCommitmentMask` -/
def compactMask (pr : Prims P) (k : Nat) : Nat := hs pr (maskSalt ++ scalar32 k)

/-- byte-wise exclusive or (`xor8` on 8-byte strings) -/
def xorBytes : Bytes → Bytes → Bytes
  | x :: xs, y :: ys => (x ^^^ y) :: xorBytes xs ys
  | _, _ => []

/-- `ecdhHash`: Keccak("amount" ‖ k) -/
def ecdhHash (pr : Prims P) (k : Nat) : Bytes := pr.keccak (amountSalt ++ scalar32 k)

/-- `ecdhEncode`, compact branch: the 8 bytes of the amount, little-endian, xored with the first 8 bytes of `ecdhHash` -/
def compactEncode (pr : Prims P) (k a : Nat) : Bytes := xorBytes (le 8 a) ((ecdhHash pr k).take 8)

/-- what the receiver may report for an output: an amount together with a mask that opens the on-chain commitment `C` -/
def Opens (pr : Prims P) (H : P) (C : P) (a y : Nat) : Prop := commitment pr H y a = C

/-! Receiver side by the book (`ecdhDecode`), used by the driver as the independent reference for `c08_open`. -/

/-- legacy `ecdhDecode`: mask = mask' − Hs(k), amount = h2d(amount' − Hs(Hs(k))) = the low 8 bytes -/
def legacyDecode (pr : Prims P) (k : Nat) (mask' amount' : Bytes) : Nat × Nat :=
  let s1 := hs pr (scalar32 k)
  let s2 := hs pr (scalar32 s1)
  let y := (leVal mask' % pr.l + (pr.l - s1)) % pr.l
  let a := (leVal amount' % pr.l + (pr.l - s2)) % pr.l
  (a % 2 ^ 64, y)

/-- compact `ecdhDecode` -/
def compactDecode (pr : Prims P) (k : Nat) (amount' : Bytes) : Nat × Nat :=
  (leVal (xorBytes amount' ((ecdhHash pr k).take 8)), compactMask pr k)
end Spec.Amounts
