import MoneroModel.Spec.Leb128
/-! Reference: where the three hashed parts of a transaction END, read off a raw byte string "by the book" — a skipper that walks
the fields of Monero's `transaction_prefix` and `rctSigBase` using only the tags and counts found in the bytes themselves
(cryptonote_basic.h, rctTypes.h `serialize_rctsig_base`). It builds no value, knows nothing of the model, of its encoder or of
anything generated from /repo; it does not look at the prunable part at all (everything after `q`).

`p` = end of the prefix, `q` = end of the RingCT base. Base length, closed form:
`1 (type) + |fee varint| + (Simple ? 32·inputs : 0) + outputs·(type ≤ 3 ? 64 : 8) + 32·outputs`; a Null base is the type byte alone. -/
namespace Spec
abbrev Bs := List UInt8

/-- one canonical LEB128 number below 2^64: value and remaining bytes -/
def rdVarint (b : Bs) : Option (Nat × Bs) :=
  match leb128Accept b with
  | some (n, k) => some (n, b.drop k)
  | none => none
/-- drop exactly `n` bytes (fails when fewer are left) -/
def skipN : Nat → Bs → Option Bs
  | 0, b => some b
  | _ + 1, [] => none
  | n + 1, _ :: r => skipN n r
/-- apply a skipper `n` times (stops at the first failure, so a huge count over a short string fails fast) -/
def skipRep (f : Bs → Option Bs) : Nat → Bs → Option Bs
  | 0, b => some b
  | n + 1, b => match f b with | none => none | some r => skipRep f n r
def skipVarint (b : Bs) : Option Bs := (rdVarint b).map (·.2)
/-- `txin_gen` = 0xff height | `txin_to_key` = 0x02 amount, count, offsets, 32-byte key image -/
def skipIn : Bs → Option Bs
  | [] => none
  | t :: r =>
    if t = 0xff then skipVarint r
    else if t = 0x02 then
      match rdVarint r with
      | none => none
      | some (_, r1) => match rdVarint r1 with
        | none => none
        | some (n, r2) => match skipRep skipVarint n r2 with
          | none => none
          | some r3 => skipN 32 r3
    else none
/-- amount, then `txout_to_key` = 0x02 key | `txout_to_tagged_key` = 0x03 key, view tag -/
def skipOut (b : Bs) : Option Bs :=
  match rdVarint b with
  | none => none
  | some (_, r) => match r with
    | [] => none
    | t :: r1 => if t = 0x02 then skipN 32 r1 else if t = 0x03 then skipN 33 r1 else none

structure TxBounds where
  (version inputs outputs p q : Nat)
  /-- the RingCT type byte is present and is 0 -/
  (isNull : Bool)
  /-- there is RingCT data (version ≠ 1 and at least one input) -/
  (hasRct : Bool)

/-- boundaries of the hashed parts of the transaction that starts at the beginning of `b` -/
def txBounds (b : Bs) : Option TxBounds :=
  match rdVarint b with
  | none => none
  | some (v, r1) => match rdVarint r1 with
    | none => none
    | some (_, r2) => match rdVarint r2 with
      | none => none
      | some (nin, r3) => match skipRep skipIn nin r3 with
        | none => none
        | some r4 => match rdVarint r4 with
          | none => none
          | some (nout, r5) => match skipRep skipOut nout r5 with
            | none => none
            | some r6 => match rdVarint r6 with
              | none => none
              | some (ne, r7) => match skipN ne r7 with
                | none => none
                | some r8 =>
                  let p := b.length - r8.length
                  if v = 1 ∨ nin = 0 then some ⟨v, nin, nout, p, p, false, false⟩
                  else match r8 with
                    | [] => none
                    | ty :: r9 =>
                      if ty = 0 then some ⟨v, nin, nout, p, p + 1, true, true⟩
                      else match rdVarint r9 with
                        | none => none
                        | some (_, r10) =>
                          let feeLen := r9.length - r10.length
                          let t := ty.toNat
                          let q := p + 1 + feeLen + (if t = 2 then 32 * nin else 0) + nout * (if t ≤ 3 then 64 else 8) + 32 * nout
                          if q ≤ b.length then some ⟨v, nin, nout, p, q, false, true⟩ else none
end Spec
