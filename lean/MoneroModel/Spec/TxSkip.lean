import MoneroModel.Spec.Leb128
/-! Reference: where the three hashed parts of a transaction END, read off a raw byte string "by the book" — a skipper that walks
the fields of Monero's `transaction_prefix` and `rctSigBase` using only the tags and counts found in the bytes themselves
(cryptonote_basic.h, rctTypes.h `serialize_rctsig_base`). It builds no value, knows nothing of the model, of its encoder or of
anything generated from /repo; it does not look at the prunable part at all (everything after `q`).

`p` = end of the prefix, `q` = end of the RingCT base. Base length, closed form:
`1 (type) + |fee varint| + (Simple ? 32·inputs : 0) + outputs·(type ≤ 3 ? 64 : 8) + 32·outputs`; a Null base is the type byte alone.
Where the format fixes the END of the whole transaction without reading the prunable part, the skipper reports it (`end?`):
version 1 — `p + 64 · (number of ring members of all key inputs)` (one `(c, r)` signature per ring member); any other version without
inputs — `p`; RingCT type Null — `q`.

Props/C05 `C05_bounds_are_skipper` proves that these are the boundaries of every accepted parse (all versions, any remainder). -/
namespace Spec
abbrev Bs := List UInt8

/-- one canonical LEB128 number below 2^64: value and remaining bytes -/
def rdVarint (b : Bs) : Option (Nat × Bs) :=
  match leb128Accept b with
  | some (n, k) => some (n, b.drop k)
  | none => none
/-- drop exactly `n` bytes (fails when fewer are left) -/
def skipN : Nat → Bs → Option Bs
  | 0, b => some b
  | _ + 1, [] => none
  | n + 1, _ :: r => skipN n r
/-- apply a skipper `n` times (stops at the first failure, so a huge count over a short string fails fast) -/
def skipRep (f : Bs → Option Bs) : Nat → Bs → Option Bs
  | 0, b => some b
  | n + 1, b => match f b with | none => none | some r => skipRep f n r
/-- apply a counting skipper `n` times, adding the counts to `acc` -/
def skipRepSum (f : Bs → Option (Nat × Bs)) : Nat → Nat → Bs → Option (Nat × Bs)
  | 0, acc, b => some (acc, b)
  | n + 1, acc, b => match f b with | none => none | some (k, r) => skipRepSum f n (acc + k) r
def skipVarint (b : Bs) : Option Bs := (rdVarint b).map (·.2)
/-- `txin_gen` = 0xff height | `txin_to_key` = 0x02 amount, count, offsets, 32-byte key image.
Returns the number of ring members (key offsets; 0 for `txin_gen`) and the rest -/
def skipIn : Bs → Option (Nat × Bs)
  | [] => none
  | t :: r =>
    if t = 0xff then (skipVarint r).map fun r' => (0, r')
    else if t = 0x02 then
      match rdVarint r with
      | none => none
      | some (_, r1) => match rdVarint r1 with
        | none => none
        | some (n, r2) => match skipRep skipVarint n r2 with
          | none => none
          | some r3 => (skipN 32 r3).map fun r' => (n, r')
    else none
/-- amount, then `txout_to_key` = 0x02 key | `txout_to_tagged_key` = 0x03 key, view tag -/
def skipOut (b : Bs) : Option Bs :=
  match rdVarint b with
  | none => none
  | some (_, r) => match r with
    | [] => none
    | t :: r1 => if t = 0x02 then skipN 32 r1 else if t = 0x03 then skipN 33 r1 else none

/-- what walking a `transaction_prefix` finds: version, number of inputs, ring members of all key inputs together, number of
outputs, and the bytes after the prefix -/
structure PrefixEnd where
  (version inputs ringMembers outputs : Nat)
  (rest : Bs)

/-- `transaction_prefix`: version, unlock time, inputs, outputs, extra -/
def skipPrefix (b : Bs) : Option PrefixEnd :=
  match rdVarint b with
  | none => none
  | some (v, r1) => match rdVarint r1 with
    | none => none
    | some (_, r2) => match rdVarint r2 with
      | none => none
      | some (nin, r3) => match skipRepSum skipIn nin 0 r3 with
        | none => none
        | some (rings, r4) => match rdVarint r4 with
          | none => none
          | some (nout, r5) => match skipRep skipOut nout r5 with
            | none => none
            | some r6 => match rdVarint r6 with
              | none => none
              | some (ne, r7) => match skipN ne r7 with
                | none => none
                | some r8 => some ⟨v, nin, rings, nout, r8⟩

/-- `rctSigBase` of a transaction with `nin` inputs and `nout` outputs at the head of the bytes: its length and whether its type is Null
(fails when fewer bytes than that are left) -/
def skipBase (nin nout : Nat) : Bs → Option (Nat × Bool)
  | [] => none
  | ty :: r9 =>
    if ty = 0 then some (1, true)
    else match rdVarint r9 with
      | none => none
      | some (_, r10) =>
        let feeLen := r9.length - r10.length
        let t := ty.toNat
        let len := 1 + feeLen + (if t = 2 then 32 * nin else 0) + nout * (if t ≤ 3 then 64 else 8) + 32 * nout
        if len ≤ 1 + r9.length then some (len, false) else none

structure TxBounds where
  (version inputs outputs p q : Nat)
  /-- the RingCT type byte is present and is 0 -/
  (isNull : Bool)
  /-- there is RingCT data (version ≠ 1 and at least one input) -/
  (hasRct : Bool)
  /-- the end of the whole transaction, where the format fixes it without the prunable part: version 1, no inputs, type Null -/
  (end? : Option Nat)

/-- boundaries of the hashed parts of the transaction that starts at the beginning of `b` -/
def txBounds (b : Bs) : Option TxBounds :=
  match skipPrefix b with
  | none => none
  | some pe =>
    let p := b.length - pe.rest.length
    if pe.version = 1 then
      let e := p + 64 * pe.ringMembers
      if e ≤ b.length then some ⟨pe.version, pe.inputs, pe.outputs, p, p, false, false, some e⟩ else none
    else if pe.inputs = 0 then some ⟨pe.version, pe.inputs, pe.outputs, p, p, false, false, some p⟩
    else match skipBase pe.inputs pe.outputs pe.rest with
      | none => none
      | some (len, isNull) => some ⟨pe.version, pe.inputs, pe.outputs, p, p + len, isNull, true, if isNull then some (p + len) else none⟩
end Spec
