import MoneroModel.Spec.Leb128
/-! Reference: the `tx_extra` layout by the book (Monero `cryptonote_basic/tx_extra.h`), written independently of
the model and of anything generated from /repo. A tx_extra is the plain concatenation of its fields; each field is a
tag byte followed by its content:

* `0x00` padding: the tag and then only zero bytes (at most 255 of them);
* `0x01` transaction public key: 32 bytes;
* `0x02` extra nonce: varint length, then that many bytes;
* `0x03` merge-mining tag: varint size of what follows, then varint depth and the 32-byte merkle root;
* `0x04` additional public keys: varint count, then 32 bytes per key;
* `0xDE` MinerGate tag: varint length, then that many bytes.
-/
namespace Spec.Extra

inductive Field
  | padding (zeros : Nat)
  | pubkey (k : List UInt8)
  | nonce (n : List UInt8)
  | mergeMining (depth : Nat) (root : List UInt8)
  | additional (ks : List (List UInt8))
  | minergate (d : List UInt8)

def layout : Field → List UInt8
  | .padding z => 0x00 :: List.replicate z 0
  | .pubkey k => 0x01 :: k
  | .nonce n => 0x02 :: (leb128 n.length ++ n)
  | .mergeMining depth root =>
    let body := leb128 depth ++ root
    0x03 :: (leb128 body.length ++ body)
  | .additional ks => 0x04 :: (leb128 ks.length ++ ks.flatten)
  | .minergate d => 0xDE :: (leb128 d.length ++ d)

/-- the raw extra bytes of a field sequence -/
def serialise (fs : List Field) : List UInt8 := (fs.map layout).flatten

end Spec.Extra
