/-! Independent statement of "a 32-byte digest read as a little-endian integer, reduced modulo the group order":
the integer is read most-significant byte first from the reversed string, the order is written as a literal, the
remainder is `n − ⌊n/l⌋·l`, and the output bytes are produced by repeated division. Does not import Model/Gen/Ref.Ed25519. -/
namespace Spec.HashScalar

/-- group order of Ed25519 (RFC 8032 §5.1: 2^252 + 27742317777372353535851937790883648493) as a hexadecimal literal -/
def order : Nat := 0x1000000000000000000000000000000014def9dea2f79cd65812631a5cf5d3ed

/-- big-endian reading (Horner, most significant first) -/
def beNat (b : List UInt8) : Nat := b.foldl (fun acc x => acc * 256 + x.toNat) 0

def leValue (b : List UInt8) : Nat := beNat b.reverse

def reduce (n : Nat) : Nat := n - (n / order) * order

/-- `len` little-endian bytes by repeated division -/
def leBytes : Nat → Nat → List UInt8
  | 0, _ => []
  | len + 1, n => UInt8.ofNat (n % 256) :: leBytes len (n / 256)

def scalarOfDigest (digest : List UInt8) : List UInt8 := leBytes 32 (reduce (leValue digest))

end Spec.HashScalar
