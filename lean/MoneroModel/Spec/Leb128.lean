/-! Reference: unsigned LEB128 (little-endian base 128 with continuation bits), the textbook definition.
Independent of the model and of anything generated from /repo. -/
namespace Spec
/-- shortest little-endian base-128 string of `n`, continuation bit on all but the last byte -/
def leb128 (n : Nat) : List UInt8 :=
  if h : n < 128 then [UInt8.ofNat n] else UInt8.ofNat (128 + n % 128) :: leb128 (n / 128)
termination_by n
decreasing_by omega

/-- number of base-128 digits: `max 1 ⌈bits(n)/7⌉` -/
def leb128Len (n : Nat) : Nat := if n = 0 then 1 else Nat.log2 n / 7 + 1

/-- Reference *decoder by specification*: a string is accepted iff some prefix is the `leb128` of a number below
`2^64`; computed by reading groups up to the first byte without continuation bit, valuing them, and comparing with
the canonical encoding. Returns the value and the number of bytes consumed. -/
def readGroups : List UInt8 → Option (List Nat × Nat)
  | [] => none
  | b :: bs => if b.toNat < 128 then some ([b.toNat], 1) else
      match readGroups bs with | none => none | some (gs, k) => some ((b.toNat - 128) :: gs, k + 1)
def valOf : List Nat → Nat | [] => 0 | g :: gs => g + 128 * valOf gs
def leb128Accept (b : List UInt8) : Option (Nat × Nat) :=
  match readGroups b with
  | none => none
  | some (gs, k) =>
    let n := valOf gs
    if n < 2^64 ∧ leb128 n = b.take k then some (n, k) else none
/-- Reference *classification by specification* of an arbitrary byte string, in the order a left-to-right reader
meets the conditions: no byte without continuation bit → truncated (all `b.length` bytes are needed); otherwise the
string ends at the first such byte, `k` bytes in; a multi-byte string whose most significant group is zero is
non-minimal; a value of `2^64` or more does not fit. Written with `readGroups` / `valOf` only. -/
inductive Verdict | ok (n k : Nat) | truncated (k : Nat) | nonminimal (k : Nat) | toobig (k : Nat)
deriving DecidableEq, Repr
def classify (b : List UInt8) : Verdict :=
  match readGroups b with
  | none => .truncated b.length
  | some (gs, k) =>
    if 1 < k ∧ gs.getLast? = some 0 then .nonminimal k
    else if valOf gs < 2^64 then .ok (valOf gs) k else .toobig k
/-- a whole-buffer decode accepts iff the classification is `ok` and nothing is left -/
def acceptExact (b : List UInt8) : Option Nat :=
  match classify b with | .ok n k => if k = b.length then some n else none | _ => none
end Spec
