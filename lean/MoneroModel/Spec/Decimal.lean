import MoneroModel.Types
/-! # Specification: decimal amount literals and their exact value (independent of the model and of /repo)

A literal is `-? D* (. D*)?` over ASCII digits with a NON-EMPTY body after the optional sign (so `"."` and `"-."`
are literals denoting 0, `""` and `"-"` are not; reading fixed in DESIGN §8). With integer-part digits `ip` and fraction
digits `fp`, its value is the exact rational `N / 10^f` where `N` is the integer written by the digit string `ip ++ fp`
and `f = |fp|`; we carry the pair `(N, f)` and never divide.

`specParse signed decimals s = some q` iff
* `s` is a literal of at most 50 bytes,
* it is written with at most `decimals` fraction digits (`f ≤ decimals`; this is the condition of the property text —
  "written with at most the denomination's number of decimals" — and it is what the library does: a 13th fraction
  digit is refused for `xmr` even when it is `0`; with `f ≤ decimals` the quantity `value · 10^decimals =
  N · 10^(decimals − f)` is always a whole number of piconero),
* the magnitude `N · 10^(decimals − f)` is at most `2^63 − 1`,
* `q` is that magnitude with the literal's sign; the unsigned type refuses every literal that starts with `-`
  (including `-0`, DESIGN §8).

`specFormat decimals a` is the exact decimal expansion of `a / 10^decimals` with exactly `decimals` fraction digits:
sign, the integer part `|a| div 10^decimals` in canonical decimal (no leading zeros, `0` for zero), and, when
`decimals > 0`, a point followed by the `decimals` digits of `|a| mod 10^decimals`. -/
namespace Spec.Decimal

def isDigit (c : UInt8) : Bool := 48 ≤ c.toNat && c.toNat ≤ 57
def digitVal (c : UInt8) : Nat := c.toNat - 48

/-- positional value of a digit string, most significant digit first: `Σ dᵢ · 10^(n-1-i)` -/
def natOfDigits : List UInt8 → Nat
  | [] => 0
  | c :: cs => digitVal c * 10 ^ cs.length + natOfDigits cs

/-- `D* (. D*)?` — the digit runs before and after the optional point -/
def splitBody (body : List UInt8) : Option (List UInt8 × List UInt8) :=
  let ip := body.takeWhile isDigit
  match body.dropWhile isDigit with
  | [] => some (ip, [])
  | c :: fp => if c = 46 ∧ fp.all isDigit = true then some (ip, fp) else none

/-- sign and body of a string -/
def splitSign : List UInt8 → Bool × List UInt8
  | c :: t => if c = 45 then (true, t) else (false, c :: t)
  | [] => (false, [])

/-- the literal as (negative?, N, f): value `= ± N / 10^f` -/
def literal (s : List UInt8) : Option (Bool × Nat × Nat) :=
  let (neg, body) := splitSign s
  if body = [] then none else
  match splitBody body with
  | none => none
  | some (ip, fp) => some (neg, natOfDigits (ip ++ fp), fp.length)

def maxAmount : Nat := 2^63 - 1
def maxLen : Nat := 50

def specParse (signed : Bool) (decimals : Nat) (s : List UInt8) : Option Int :=
  if s.length > maxLen then none else
  match literal s with
  | none => none
  | some (neg, n, f) =>
    if f > decimals then none else
    let m := n * 10 ^ (decimals - f)
    if m > maxAmount then none else
    if neg then (if signed then some (-(m : Int)) else none) else some (m : Int)

/-- canonical decimal numeral of a natural number (Lean's own `Nat.toDigits`) -/
def natDigits (n : Nat) : List UInt8 := (Nat.toDigits 10 n).map (fun c => UInt8.ofNat c.toNat)

/-- the last `k` decimal digits of `n`, as exactly `k` characters -/
def fracDigits : Nat → Nat → List UInt8
  | 0, _ => []
  | k+1, n => fracDigits k (n / 10) ++ [UInt8.ofNat (48 + n % 10)]

def specFormat (decimals : Nat) (a : Int) : List UInt8 :=
  let m := a.natAbs
  (if a < 0 then [45] else []) ++ natDigits (m / 10 ^ decimals) ++
    (if decimals = 0 then [] else 46 :: fracDigits decimals m)

/-- the number of decimals of each denomination, by the book (1 xmr = 10^12 piconero, milli/micro/nano = 10^9/10^6/10^3) -/
def decimals : Denom → Nat
  | .Monero => 12 | .Millinero => 9 | .Micronero => 6 | .Nanonero => 3 | .Piconero => 0

/-- the name written after a formatted amount -/
def name : Denom → String
  | .Monero => "xmr" | .Millinero => "millinero" | .Micronero => "micronero" | .Nanonero => "nanonero" | .Piconero => "piconero"

/-- the accepted spellings of each denomination -/
def spellings : Denom → List String
  | .Monero => ["xmr", "XMR", "monero"]
  | .Millinero => ["millinero", "mXMR"]
  | .Micronero => ["micronero", "µXMR", "mcXMR"]
  | .Nanonero => ["nanonero", "nXMR"]
  | .Piconero => ["piconero", "pXMR"]

/-- UTF-8 by the book (RFC 3629) -/
def utf8Char (c : Char) : List UInt8 :=
  let n := c.toNat
  if n < 0x80 then [UInt8.ofNat n]
  else if n < 0x800 then [UInt8.ofNat (0xC0 + n / 64), UInt8.ofNat (0x80 + n % 64)]
  else if n < 0x10000 then [UInt8.ofNat (0xE0 + n / 4096), UInt8.ofNat (0x80 + n / 64 % 64), UInt8.ofNat (0x80 + n % 64)]
  else [UInt8.ofNat (0xF0 + n / 262144), UInt8.ofNat (0x80 + n / 4096 % 64), UInt8.ofNat (0x80 + n / 64 % 64), UInt8.ofNat (0x80 + n % 64)]
def utf8 (s : String) : List UInt8 := s.toList.flatMap utf8Char

/-- the pieces of a string between spaces (always at least one piece) -/
def pieces : List UInt8 → List (List UInt8)
  | [] => [[]]
  | c :: cs => if c = 32 then [] :: pieces cs else
    match pieces cs with
    | h :: t => (c :: h) :: t
    | [] => [[c]]

def denomOfName (b : List UInt8) : Option Denom :=
  Denom.all.find? fun d => (spellings d).any fun n => utf8 n == b

/-- a string `<literal> <denomination>`: exactly one space-separated pair -/
def specParseWithDenomination (signed : Bool) (s : List UInt8) : Option Int :=
  match pieces s with
  | [amt, den] => match denomOfName den with
    | some d => specParse signed (decimals d) amt
    | none => none
  | _ => none

def specFormatWithDenomination (d : Denom) (a : Int) : List UInt8 :=
  specFormat (decimals d) a ++ [32] ++ utf8 (name d)

end Spec.Decimal
