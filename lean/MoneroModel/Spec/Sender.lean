import MoneroModel.Spec.Leb128
/-! Reference: what a Monero SENDER does to pay a destination, and how subaddress keys are defined — written by the
book ("Zero to Monero" 2nd ed. §4.2–4.3, §5.2; monero `crypto.cpp` `generate_key_derivation`, `derive_public_key`,
`derive_view_tag`; `device_default.cpp` `get_subaddress_secret_key`, `get_subaddress_spend_public_key`), independent of
/repo, of the model and of the generated constants. Nothing here looks at how monero-rs computes anything.

The curve/hash primitives are a parameter record `Prims` (so that the same text is used by the theorems — over any
group — and by the compiled driver — over the reference Ed25519/Keccak). Scalars are natural numbers.

  derivation            D  = 8·(r·V)                      (cofactor cleared on the POINT: three doublings, `ge_mul8`)
  derivation → scalar   h  = Hs(enc(D) ‖ varint(n))       (Hs = Keccak-256, little-endian, reduced mod l)
  one-time key          P  = h·G + S_d                    (S_d the destination's spend key, n the output position)
  view tag              t  = Keccak("view_tag" ‖ enc(D) ‖ varint(n))[0]
  transaction key       R  = r·G  for a primary-address destination, R = r·S_d for a subaddress destination
  subaddress (i,j)      m  = Hs("SubAddr\0" ‖ v ‖ i_le32 ‖ j_le32);  S' = S + m·G;  V' = v·S'
                        secret side: s' = s + m,  v' = v·s'  (mod l)

API (stable; imported by Props/C07–C11 and the drivers): `Prims`, `hs`, `le`, `scalar32`, `u32le`, `mul8`,
`derivation`, `derivationScalar`, `oneTimeKey`, `viewTag`, `Dest`, `txKey`, `sendKey`, `sendTag`, `subScalar`,
`subSpend`, `subView`, `subSpendSec`, `subViewSec`, `subDest`, `primaryDest`. Core Lean only, total. -/
namespace Spec.Sender
abbrev Bytes := List UInt8

/-- the primitives the procedure is written over: a group (`add`, `smul` = integer multiple, base point `G`), the
32-byte point encoding, Keccak-256 and the order `l` of `G` -/
structure Prims (P : Type) where
  add : P → P → P
  smul : Nat → P → P
  G : P
  enc : P → Bytes
  keccak : Bytes → Bytes
  l : Nat

/-- value of a little-endian byte string -/
def leVal : Bytes → Nat
  | [] => 0
  | b :: r => b.toNat + 256 * leVal r
/-- the `len`-byte little-endian form of `n` (low `len` bytes) -/
def le : Nat → Nat → Bytes
  | 0, _ => []
  | len + 1, n => UInt8.ofNat (n % 256) :: le len (n / 256)
/-- a scalar on the wire: 32 bytes little-endian -/
def scalar32 (n : Nat) : Bytes := le 32 n
/-- a 32-bit index on the wire: 4 bytes little-endian -/
def u32le (n : Nat) : Bytes := le 4 n

/-- ASCII text as bytes -/
def ascii (s : List Char) : Bytes := s.map fun c => UInt8.ofNat c.toNat
/-- "view_tag" -/
def viewTagSalt : Bytes := ascii ['v', 'i', 'e', 'w', '_', 't', 'a', 'g']
/-- "SubAddr" followed by a NUL byte -/
def subAddrSalt : Bytes := ascii ['S', 'u', 'b', 'A', 'd', 'd', 'r'] ++ [0]

variable {P : Type}

/-- `Hs`: hash to scalar -/
def hs (pr : Prims P) (m : Bytes) : Nat := leVal (pr.keccak m) % pr.l

/-- multiplication by the cofactor, as three point doublings (`ge_mul8`) -/
def mul8 (pr : Prims P) (X : P) : P :=
  let X2 := pr.add X X
  let X4 := pr.add X2 X2
  pr.add X4 X4

/-- `generate_key_derivation(B, a)`: 8·(a·B) — the same function on the sender side (a = r, B = V) and on the receiver
side (a = v, B = R) -/
def derivation (pr : Prims P) (a : Nat) (B : P) : P := mul8 pr (pr.smul a B)

/-- `derivation_to_scalar(D, n)`: Hs(enc(D) ‖ varint(n)) -/
def derivationScalar (pr : Prims P) (D : P) (n : Nat) : Nat := hs pr (pr.enc D ++ Spec.leb128 n)

/-- `derive_public_key(D, n, S_d)`: Hs(D ‖ n)·G + S_d -/
def oneTimeKey (pr : Prims P) (D : P) (Sd : P) (n : Nat) : P := pr.add (pr.smul (derivationScalar pr D n) pr.G) Sd

/-- `derive_view_tag(D, n)`: first byte of Keccak("view_tag" ‖ enc(D) ‖ varint(n)) -/
def viewTag (pr : Prims P) (D : P) (n : Nat) : UInt8 :=
  (pr.keccak (viewTagSalt ++ pr.enc D ++ Spec.leb128 n)).headD 0

/-- a destination address: its two public keys and whether it is a subaddress -/
structure Dest (P : Type) where
  view : P
  spend : P
  isSub : Bool

/-- the transaction public key for a destination and sender secret `r`: `r·G` for a primary address, `r·S_d` for a
subaddress (published as the per-output additional key when the transaction also pays others) -/
def txKey (pr : Prims P) (r : Nat) (d : Dest P) : P := if d.isSub then pr.smul r d.spend else pr.smul r pr.G

/-- the output key the sender writes at position `n` for destination `d` with secret `r` -/
def sendKey (pr : Prims P) (r : Nat) (d : Dest P) (n : Nat) : P := oneTimeKey pr (derivation pr r d.view) d.spend n
/-- the view tag the sender writes at position `n` for destination `d` with secret `r` -/
def sendTag (pr : Prims P) (r : Nat) (d : Dest P) (n : Nat) : UInt8 := viewTag pr (derivation pr r d.view) n

/-- the subaddress scalar m = Hs("SubAddr\0" ‖ v ‖ i_le32 ‖ j_le32) -/
def subScalar (pr : Prims P) (v : Nat) (i j : Nat) : Nat := hs pr (subAddrSalt ++ scalar32 v ++ u32le i ++ u32le j)
/-- S' = S + m·G -/
def subSpend (pr : Prims P) (v : Nat) (S : P) (i j : Nat) : P := pr.add S (pr.smul (subScalar pr v i j) pr.G)
/-- V' = v·S' -/
def subView (pr : Prims P) (v : Nat) (S : P) (i j : Nat) : P := pr.smul v (subSpend pr v S i j)
/-- s' = s + m (mod l) -/
def subSpendSec (pr : Prims P) (v s : Nat) (i j : Nat) : Nat := (s + subScalar pr v i j) % pr.l
/-- v' = v·s' (mod l) -/
def subViewSec (pr : Prims P) (v s : Nat) (i j : Nat) : Nat := (v * subSpendSec pr v s i j) % pr.l

/-- the primary address of the wallet (v, S): (V = v·G, S) -/
def primaryDest (pr : Prims P) (v : Nat) (S : P) : Dest P := ⟨pr.smul v pr.G, S, false⟩
/-- the subaddress (i,j) ≠ (0,0) of the wallet (v, S): (V', S') -/
def subDest (pr : Prims P) (v : Nat) (S : P) (i j : Nat) : Dest P := ⟨subView pr v S i j, subSpend pr v S i j, true⟩
/-- the address at index (i,j): (0,0) is the primary address -/
def destAt (pr : Prims P) (v : Nat) (S : P) (i j : Nat) : Dest P :=
  if i = 0 ∧ j = 0 then primaryDest pr v S else subDest pr v S i j
end Spec.Sender
