import MoneroModel.Spec.Leb128
import MoneroModel.Types
/-! Reference: the Monero consensus wire layout of transactions and blocks, "by the book" — written from Monero's
`cryptonote_basic.h` (transaction_prefix, txin_gen = 0xff, txin_to_key = 0x02, txout_to_key = 0x02,
txout_to_tagged_key = 0x03), `cryptonote_format_utils.cpp` and `ringct/rctTypes.h` (`rctSigBase::serialize_rctsig_base`,
`rctSigPrunable::serialize_rctsig_prunable`). Independent of the model and of anything generated from /repo.

A *description* (`TxD`, `BlockD`) says what a transaction contains; `specTx` / `specBlock` are flat concatenations.
Only transaction versions 1 and 2 exist here. -/
namespace Spec
abbrev B := List UInt8

def cat (l : List B) : B := l.flatten
def varint (n : Nat) : B := leb128 n
def u32le (n : Nat) : B := [UInt8.ofNat (n % 256), UInt8.ofNat (n / 256 % 256), UInt8.ofNat (n / 65536 % 256), UInt8.ofNat (n / 16777216 % 256)]

inductive InD
  | gen (height : Nat)
  | key (amount : Nat) (offsets : List Nat) (keyImage : B)
structure OutD where (amount : Nat) (key : B) (tag : Option UInt8)
structure BpD where (A S T1 T2 taux mu : B) (L R : List B) (a b t : B)
structure BppD where (A A1 Bk r1 s1 d1 : B) (L R : List B)
/-- Borromean range proof of one output: `s0[64] s1[64] ee Ci[64]` -/
structure RangeSigD where (s0 s1 : List B) (ee : B) (Ci : List B)
/-- MLSAG: `ss[rows][cols]`, `cc` -/
structure MgD where (ss : List (List B)) (cc : B)
structure ClsagD where (s : List B) (c1 D : B)
/-- RingCT data by signature type; legacy ecdh entries are (mask, amount) pairs of 32 bytes, compact ones 8 bytes -/
inductive RctD
  | null
  | full (fee : Nat) (ecdh : List (B × B)) (outPk : List B) (rangeSigs : List RangeSigD) (mg : MgD)
  | simple (fee : Nat) (pseudoOuts : List B) (ecdh : List (B × B)) (outPk : List B) (rangeSigs : List RangeSigD) (mgs : List MgD)
  | bulletproof (fee : Nat) (ecdh : List (B × B)) (outPk : List B) (bps : List BpD) (mgs : List MgD) (pseudoOuts : List B)
  | bulletproof2 (fee : Nat) (ecdh : List B) (outPk : List B) (bps : List BpD) (mgs : List MgD) (pseudoOuts : List B)
  | clsag (fee : Nat) (ecdh : List B) (outPk : List B) (bps : List BpD) (clsags : List ClsagD) (pseudoOuts : List B)
  | bpplus (fee : Nat) (ecdh : List B) (outPk : List B) (bpps : List BppD) (clsags : List ClsagD) (pseudoOuts : List B)
inductive BodyD
  /-- version 1: one row of (c, r) signatures per key input -/
  | v1 (sigs : List (List (B × B)))
  /-- version 2: RingCT data; absent (`none`) iff the transaction has no inputs -/
  | v2 (rct : Option RctD)
structure TxD where (unlock : Nat) (ins : List InD) (outs : List OutD) (extra : B) (body : BodyD)
structure HeaderD where (major minor timestamp : Nat) (prevId : B) (nonce : Nat)
structure BlockD where (hdr : HeaderD) (miner : TxD) (txHashes : List B)

def TxD.version (d : TxD) : Nat := match d.body with | .v1 _ => 1 | .v2 _ => 2

def specIn : InD → B
  | .gen h => [0xff] ++ varint h
  | .key a offs ki => [0x02] ++ varint a ++ varint offs.length ++ cat (offs.map varint) ++ ki
def specOut (o : OutD) : B :=
  varint o.amount ++ (match o.tag with | none => [0x02] ++ o.key | some t => [0x03] ++ o.key ++ [t])
def specPrefix (d : TxD) : B :=
  varint d.version ++ varint d.unlock ++ varint d.ins.length ++ cat (d.ins.map specIn) ++
  varint d.outs.length ++ cat (d.outs.map specOut) ++ varint d.extra.length ++ d.extra

def specEcdhFull (e : B × B) : B := e.1 ++ e.2
def specBp (p : BpD) : B :=
  p.A ++ p.S ++ p.T1 ++ p.T2 ++ p.taux ++ p.mu ++ varint p.L.length ++ cat p.L ++ varint p.R.length ++ cat p.R ++ p.a ++ p.b ++ p.t
def specBpp (p : BppD) : B :=
  p.A ++ p.A1 ++ p.Bk ++ p.r1 ++ p.s1 ++ p.d1 ++ varint p.L.length ++ cat p.L ++ varint p.R.length ++ cat p.R
def specRangeSig (r : RangeSigD) : B := cat r.s0 ++ cat r.s1 ++ r.ee ++ cat r.Ci
def specMg (m : MgD) : B := cat (m.ss.map cat) ++ m.cc
def specClsag (c : ClsagD) : B := cat c.s ++ c.c1 ++ c.D

/-- `rctSigBase`: type byte, then (unless Null) fee, [Simple: pseudo outputs], ecdh info, output commitments -/
def specBase : RctD → B
  | .null => [0x00]
  | .full fee ecdh outPk _ _ => [0x01] ++ varint fee ++ cat (ecdh.map specEcdhFull) ++ cat outPk
  | .simple fee po ecdh outPk _ _ => [0x02] ++ varint fee ++ cat po ++ cat (ecdh.map specEcdhFull) ++ cat outPk
  | .bulletproof fee ecdh outPk _ _ _ => [0x03] ++ varint fee ++ cat (ecdh.map specEcdhFull) ++ cat outPk
  | .bulletproof2 fee ecdh outPk _ _ _ => [0x04] ++ varint fee ++ cat ecdh ++ cat outPk
  | .clsag fee ecdh outPk _ _ _ => [0x05] ++ varint fee ++ cat ecdh ++ cat outPk
  | .bpplus fee ecdh outPk _ _ _ => [0x06] ++ varint fee ++ cat ecdh ++ cat outPk

/-- `rctSigPrunable`: range proofs (Borromean ×outputs | u32 count + Bulletproofs | varint count + Bulletproofs(+)),
ring signatures (MLSAGs | CLSAGs), pseudo outputs (all types from Bulletproof on) -/
def specPrunable : RctD → B
  | .null => []
  | .full _ _ _ rs mg => cat (rs.map specRangeSig) ++ specMg mg
  | .simple _ _ _ _ rs mgs => cat (rs.map specRangeSig) ++ cat (mgs.map specMg)
  | .bulletproof _ _ _ bps mgs po => u32le bps.length ++ cat (bps.map specBp) ++ cat (mgs.map specMg) ++ cat po
  | .bulletproof2 _ _ _ bps mgs po => varint bps.length ++ cat (bps.map specBp) ++ cat (mgs.map specMg) ++ cat po
  | .clsag _ _ _ bps cls po => varint bps.length ++ cat (bps.map specBp) ++ cat (cls.map specClsag) ++ cat po
  | .bpplus _ _ _ bpps cls po => varint bpps.length ++ cat (bpps.map specBpp) ++ cat (cls.map specClsag) ++ cat po

def specSig (s : B × B) : B := s.1 ++ s.2
def specBody : BodyD → B
  | .v1 sigs => cat (sigs.map fun row => cat (row.map specSig))
  | .v2 none => []
  | .v2 (some r) => specBase r ++ specPrunable r
def specTx (d : TxD) : B := specPrefix d ++ specBody d.body

def specHeader (h : HeaderD) : B := varint h.major ++ varint h.minor ++ varint h.timestamp ++ h.prevId ++ u32le h.nonce
def specBlock (b : BlockD) : B := specHeader b.hdr ++ specTx b.miner ++ varint b.txHashes.length ++ cat b.txHashes

/-- transaction identifier: v1 = H(whole tx); v2 = H(H(prefix) ‖ H(base) ‖ (Null ? 0^32 : H(prunable))) -/
def zeros32 : B := List.replicate 32 0
def specPrefixHash (H : B → B) (d : TxD) : B := H (specPrefix d)
def specTxId (H : B → B) (d : TxD) : Option B :=
  match d.body with
  | .v1 _ => some (H (specTx d))
  | .v2 none => none   -- no RingCT type exists; not covered by the definition
  | .v2 (some r) => some (H (H (specPrefix d) ++ H (specBase r) ++ (match r with | .null => zeros32 | _ => H (specPrunable r))))

/-! The tag bytes and the type-dependent layout choices of the format, as tables (cryptonote_basic.h `txin_v` / `txout_target_v`
variant tags, tx_extra.h `TX_EXTRA_*`, rctTypes.h `RCTType*`), for comparison with the tables regenerated from /repo. -/
def tagsTxIn : List (Nat × TxInV) := [(0x02, .ToKey), (0xff, .Gen)]
def tagsTarget : List (Nat × TargetV) := [(0x02, .ToKey), (0x03, .ToTaggedKey)]
def tagsExtra : List (Nat × SubFieldV) := [(0x00, .Padding), (0x01, .TxPublicKey), (0x02, .Nonce), (0x03, .MergeMining), (0x04, .AdditionalPublickKey), (0xde, .MysteriousMinerGate)]
def tagsRct : List (Nat × RctTy) := [(0, .Null), (1, .Full), (2, .Simple), (3, .Bulletproof), (4, .Bulletproof2), (5, .Clsag), (6, .BulletproofPlus)]
/-- types whose range proofs are Bulletproofs / Bulletproofs+ -/
def usesBulletproof : List RctTy := [.Bulletproof, .Bulletproof2, .Clsag]
def usesBulletproofPlus : List RctTy := [.BulletproofPlus]
/-- types whose Bulletproof count is a varint (type 3 writes a u32) -/
def bpCountIsVarint : List RctTy := [.Bulletproof2, .Clsag]
/-- types signed with CLSAG (the others with MLSAG) -/
def usesClsag : List RctTy := [.Clsag, .BulletproofPlus]
/-- types with one MLSAG per input of two columns (Full has a single MLSAG of inputs+1 columns) -/
def mlsagPerInput : List RctTy := [.Simple, .Bulletproof, .Bulletproof2]
/-- types whose pseudo outputs live in the prunable part (Simple keeps them in the base) -/
def pseudoOutsInPrunable : List RctTy := [.Bulletproof, .Bulletproof2, .Clsag, .BulletproofPlus]
/-- types with the compact 8-byte encrypted amount -/
def compactEcdh : List RctTy := [.Bulletproof2, .Clsag, .BulletproofPlus]

/-! Well-shapedness of a description: the lengths that the wire format leaves implicit are the ones the counts imply. -/
def is32 (k : B) : Prop := k.length = 32
def all32 (ks : List B) : Prop := ∀ k ∈ ks, is32 k
def u64 (n : Nat) : Prop := n < 2^64
def WFIn : InD → Prop
  | .gen h => u64 h
  | .key a offs ki => u64 a ∧ (∀ o ∈ offs, u64 o) ∧ is32 ki
def WFOut (o : OutD) : Prop := u64 o.amount ∧ is32 o.key
def ringSize (ins : List InD) : Nat := match ins.head? with | some (.key _ offs _) => offs.length | _ => 1
def WFBp (p : BpD) : Prop := is32 p.A ∧ is32 p.S ∧ is32 p.T1 ∧ is32 p.T2 ∧ is32 p.taux ∧ is32 p.mu ∧ all32 p.L ∧ all32 p.R ∧ is32 p.a ∧ is32 p.b ∧ is32 p.t
def WFBpp (p : BppD) : Prop := is32 p.A ∧ is32 p.A1 ∧ is32 p.Bk ∧ is32 p.r1 ∧ is32 p.s1 ∧ is32 p.d1 ∧ all32 p.L ∧ all32 p.R
def WFRangeSig (r : RangeSigD) : Prop := r.s0.length = 64 ∧ r.s1.length = 64 ∧ r.Ci.length = 64 ∧ all32 r.s0 ∧ all32 r.s1 ∧ all32 r.Ci ∧ is32 r.ee
def WFMg (rows cols : Nat) (m : MgD) : Prop := m.ss.length = rows ∧ (∀ row ∈ m.ss, row.length = cols ∧ all32 row) ∧ is32 m.cc
def WFClsag (ring : Nat) (c : ClsagD) : Prop := c.s.length = ring ∧ all32 c.s ∧ is32 c.c1 ∧ is32 c.D
def WFEcdhFull (e : B × B) : Prop := is32 e.1 ∧ is32 e.2
def WFEcdh8 (e : B) : Prop := e.length = 8
/-- `k` inputs, `n` outputs, ring size `m` (of the first input) -/
def WFRct (k n m : Nat) : RctD → Prop
  | .null => True
  | .full fee ecdh outPk rs mg => u64 fee ∧ ecdh.length = n ∧ (∀ e ∈ ecdh, WFEcdhFull e) ∧ outPk.length = n ∧ all32 outPk ∧
      rs.length = n ∧ (∀ r ∈ rs, WFRangeSig r) ∧ WFMg m (k + 1) mg
  | .simple fee po ecdh outPk rs mgs => u64 fee ∧ po.length = k ∧ all32 po ∧ ecdh.length = n ∧ (∀ e ∈ ecdh, WFEcdhFull e) ∧
      outPk.length = n ∧ all32 outPk ∧ rs.length = n ∧ (∀ r ∈ rs, WFRangeSig r) ∧ mgs.length = k ∧ (∀ g ∈ mgs, WFMg m 2 g)
  | .bulletproof fee ecdh outPk bps mgs po => u64 fee ∧ ecdh.length = n ∧ (∀ e ∈ ecdh, WFEcdhFull e) ∧ outPk.length = n ∧ all32 outPk ∧
      (∀ p ∈ bps, WFBp p) ∧ bps.length < 2^32 ∧ mgs.length = k ∧ (∀ g ∈ mgs, WFMg m 2 g) ∧ po.length = k ∧ all32 po
  | .bulletproof2 fee ecdh outPk bps mgs po => u64 fee ∧ ecdh.length = n ∧ (∀ e ∈ ecdh, WFEcdh8 e) ∧ outPk.length = n ∧ all32 outPk ∧
      (∀ p ∈ bps, WFBp p) ∧ mgs.length = k ∧ (∀ g ∈ mgs, WFMg m 2 g) ∧ po.length = k ∧ all32 po
  | .clsag fee ecdh outPk bps cls po => u64 fee ∧ ecdh.length = n ∧ (∀ e ∈ ecdh, WFEcdh8 e) ∧ outPk.length = n ∧ all32 outPk ∧
      (∀ p ∈ bps, WFBp p) ∧ cls.length = k ∧ (∀ c ∈ cls, WFClsag m c) ∧ po.length = k ∧ all32 po
  | .bpplus fee ecdh outPk bpps cls po => u64 fee ∧ ecdh.length = n ∧ (∀ e ∈ ecdh, WFEcdh8 e) ∧ outPk.length = n ∧ all32 outPk ∧
      (∀ p ∈ bpps, WFBpp p) ∧ cls.length = k ∧ (∀ c ∈ cls, WFClsag m c) ∧ po.length = k ∧ all32 po
def keyRings (ins : List InD) : List Nat := ins.filterMap fun i => match i with | .key _ offs _ => some offs.length | _ => none
def WFSigsV1 : List Nat → List (List (B × B)) → Prop
  | [], ss => ss = []
  | n :: t, ss => ∃ s rest, ss = s :: rest ∧ s.length = n ∧ (∀ x ∈ s, is32 x.1 ∧ is32 x.2) ∧ WFSigsV1 t rest
def WFBody (ins : List InD) (nOut : Nat) : BodyD → Prop
  | .v1 sigs => WFSigsV1 (keyRings ins) sigs
  | .v2 none => ins = []
  | .v2 (some r) => ins ≠ [] ∧ WFRct ins.length nOut (ringSize ins) r ∧ (match r with | .null => True | _ => ringSize ins ≠ 0)
def WFTxD (d : TxD) : Prop :=
  u64 d.unlock ∧ (∀ i ∈ d.ins, WFIn i) ∧ (∀ o ∈ d.outs, WFOut o) ∧ WFBody d.ins d.outs.length d.body
/-- well-shaped block description: u64 header numbers, 32-byte previous id, u32 nonce, well-shaped miner transaction, 32-byte hashes -/
def WFHeaderD (h : HeaderD) : Prop := u64 h.major ∧ u64 h.minor ∧ u64 h.timestamp ∧ is32 h.prevId ∧ h.nonce < 2^32
def WFBlockD (b : BlockD) : Prop := WFHeaderD b.hdr ∧ WFTxD b.miner ∧ all32 b.txHashes

/-! The same layout once more, TABLE-DRIVEN: `specBaseT` / `specPrunableT` decide every type-dependent choice by membership in the
tables above (`tagsRct`, `usesBulletproof`, `usesBulletproofPlus`, `bpCountIsVarint`, `usesClsag`, `pseudoOutsInPrunable`) applied to the
type `tyOf r` of the description; proved equal to `specBase` / `specPrunable` in Props/C03 (`C03_spec_is_table_driven`), so that the tables
compared with the regenerated source tables are the ones the layout actually follows. -/
def tyOf : RctD → RctTy
  | .null => .Null | .full .. => .Full | .simple .. => .Simple | .bulletproof .. => .Bulletproof
  | .bulletproof2 .. => .Bulletproof2 | .clsag .. => .Clsag | .bpplus .. => .BulletproofPlus
def RctD.fee : RctD → Nat
  | .null => 0 | .full f .. => f | .simple f .. => f | .bulletproof f .. => f | .bulletproof2 f .. => f | .clsag f .. => f | .bpplus f .. => f
def RctD.pseudoOuts : RctD → List B
  | .simple _ po _ _ _ _ => po | .bulletproof _ _ _ _ _ po => po | .bulletproof2 _ _ _ _ _ po => po | .clsag _ _ _ _ _ po => po
  | .bpplus _ _ _ _ _ po => po | _ => []
/-- the encrypted-amount entries as byte strings (mask ‖ amount for the legacy form) -/
def RctD.ecdhEntries : RctD → List B
  | .null => [] | .full _ e _ _ _ => e.map specEcdhFull | .simple _ _ e _ _ _ => e.map specEcdhFull | .bulletproof _ e _ _ _ _ => e.map specEcdhFull
  | .bulletproof2 _ e _ _ _ _ => e | .clsag _ e _ _ _ _ => e | .bpplus _ e _ _ _ _ => e
def RctD.outPk : RctD → List B
  | .null => [] | .full _ _ o _ _ => o | .simple _ _ _ o _ _ => o | .bulletproof _ _ o _ _ _ => o | .bulletproof2 _ _ o _ _ _ => o
  | .clsag _ _ o _ _ _ => o | .bpplus _ _ o _ _ _ => o
def RctD.rangeSigs : RctD → List RangeSigD | .full _ _ _ rs _ => rs | .simple _ _ _ _ rs _ => rs | _ => []
def RctD.bps : RctD → List BpD | .bulletproof _ _ _ b _ _ => b | .bulletproof2 _ _ _ b _ _ => b | .clsag _ _ _ b _ _ => b | _ => []
def RctD.bpps : RctD → List BppD | .bpplus _ _ _ b _ _ => b | _ => []
def RctD.mgs : RctD → List MgD | .full _ _ _ _ mg => [mg] | .simple _ _ _ _ _ m => m | .bulletproof _ _ _ _ m _ => m | .bulletproof2 _ _ _ _ m _ => m | _ => []
def RctD.clsags : RctD → List ClsagD | .clsag _ _ _ _ c _ => c | .bpplus _ _ _ _ c _ => c | _ => []

def tagOfTy (t : RctTy) : B := match tagsRct.find? (fun p => p.2 = t) with | some p => [UInt8.ofNat p.1] | none => []
def specBaseT (r : RctD) : B :=
  let ty := tyOf r
  tagOfTy ty ++ (if ty = .Null then [] else
    varint r.fee ++ (if ty ∈ pseudoOutsInPrunable then [] else cat r.pseudoOuts) ++ cat r.ecdhEntries ++ cat r.outPk)
def specPrunableT (r : RctD) : B :=
  let ty := tyOf r
  if ty = .Null then [] else
  (if ty ∈ usesBulletproof then (if ty ∈ bpCountIsVarint then varint r.bps.length else u32le r.bps.length) ++ cat (r.bps.map specBp)
   else if ty ∈ usesBulletproofPlus then varint r.bpps.length ++ cat (r.bpps.map specBpp)
   else cat (r.rangeSigs.map specRangeSig)) ++
  (if ty ∈ usesClsag then cat (r.clsags.map specClsag) else cat (r.mgs.map specMg)) ++
  (if ty ∈ pseudoOutsInPrunable then cat r.pseudoOuts else [])

/-! Wire content of each NAMED field of the records that Monero serialises field by field (`FIELD(..)` lists of rctTypes.h
`Bulletproof`, `BulletproofPlus`, `boroSig`, `rangeSig`, cryptonote_basic.h `tx_out`, `transaction_prefix`, `block_header`, `block`, crypto.h
`signature`), for comparison of the field ORDER with the `impl_consensus_encoding!` invocations regenerated from /repo (Props/C03
`C03_field_orders_are_monero`). Field names are those of the library's public structs (harness `desc.rs` prints every field by name). -/
def bpField (p : BpD) : String → B
  | "A" => p.A | "S" => p.S | "T1" => p.T1 | "T2" => p.T2 | "taux" => p.taux | "mu" => p.mu
  | "L" => varint p.L.length ++ cat p.L | "R" => varint p.R.length ++ cat p.R
  | "a" => p.a | "b" => p.b | "t" => p.t | _ => []
def bppField (p : BppD) : String → B
  | "A" => p.A | "A1" => p.A1 | "B" => p.Bk | "r1" => p.r1 | "s1" => p.s1 | "d1" => p.d1
  | "L" => varint p.L.length ++ cat p.L | "R" => varint p.R.length ++ cat p.R | _ => []
def boroSigField (r : RangeSigD) : String → B
  | "s0" => cat r.s0 | "s1" => cat r.s1 | "ee" => r.ee | _ => []
def rangeSigField (boroOrder : List String) (r : RangeSigD) : String → B
  | "asig" => cat (boroOrder.map (boroSigField r)) | "Ci" => cat r.Ci | _ => []
def sigField (s : B × B) : String → B
  | "c" => s.1 | "r" => s.2 | _ => []
def outField (o : OutD) : String → B
  | "amount" => varint o.amount
  | "target" => (match o.tag with | none => [0x02] ++ o.key | some t => [0x03] ++ o.key ++ [t])
  | _ => []
def prefixField (d : TxD) : String → B
  | "version" => varint d.version | "unlock_time" => varint d.unlock
  | "inputs" => varint d.ins.length ++ cat (d.ins.map specIn) | "outputs" => varint d.outs.length ++ cat (d.outs.map specOut)
  | "extra" => varint d.extra.length ++ d.extra | _ => []
def headerField (h : HeaderD) : String → B
  | "major_version" => varint h.major | "minor_version" => varint h.minor | "timestamp" => varint h.timestamp
  | "prev_id" => h.prevId | "nonce" => u32le h.nonce | _ => []
def blockField (b : BlockD) : String → B
  | "header" => specHeader b.hdr | "miner_tx" => specTx b.miner | "tx_hashes" => varint b.txHashes.length ++ cat b.txHashes | _ => []
end Spec
