import MoneroModel.Types
/-! Reference: Monero's address tag bytes (cryptonote_config.h: CRYPTONOTE_PUBLIC_ADDRESS_BASE58_PREFIX,
..._INTEGRATED_ADDRESS_..., ..._SUBADDRESS_... for mainnet / testnet / stagenet). Written by hand, independent of /repo. -/
namespace Spec
def tag : Net → Kind → Nat
  | .Mainnet, .Standard => 18 | .Mainnet, .Integrated => 19 | .Mainnet, .SubAddress => 42
  | .Testnet, .Standard => 53 | .Testnet, .Integrated => 54 | .Testnet, .SubAddress => 63
  | .Stagenet, .Standard => 24 | .Stagenet, .Integrated => 25 | .Stagenet, .SubAddress => 36
/-- the inverse lookup by the book: which (network, type) a byte denotes, if any -/
def untag (b : Nat) : Option (Net × Kind) :=
  (Net.all.flatMap fun n => Kind.all.map fun k => (n, k)).find? fun p => tag p.1 p.2 = b
/-- the address-type lookup by the book, on an arbitrary blob under a requested network: the first byte must be one of the
three tags of THAT network; an integrated address needs at least tag ‖ spend ‖ view ‖ payment id = 73 bytes and carries
bytes 65..73 as its payment id; the two other types carry none; the empty blob denotes nothing.
(Formerly `Drv.specAddrType`, the spec side of the `addrtype` operation.) -/
def addrType (net : Net) (b : List UInt8) : Option (Kind × List UInt8) :=
  match b with
  | [] => none
  | t :: _ => match untag t.toNat with
    | some (n, k) => if n ≠ net then none else if k = .Integrated then (if b.length < 73 then none else some (k, (b.drop 65).take 8)) else some (k, [])
    | none => none
end Spec
