import MoneroModel.Types
/-! Reference: Monero's address tag bytes (cryptonote_config.h: CRYPTONOTE_PUBLIC_ADDRESS_BASE58_PREFIX,
..._INTEGRATED_ADDRESS_..., ..._SUBADDRESS_... for mainnet / testnet / stagenet). Written by hand, independent of /repo. -/
namespace Spec
def tag : Net → Kind → Nat
  | .Mainnet, .Standard => 18 | .Mainnet, .Integrated => 19 | .Mainnet, .SubAddress => 42
  | .Testnet, .Standard => 53 | .Testnet, .Integrated => 54 | .Testnet, .SubAddress => 63
  | .Stagenet, .Standard => 24 | .Stagenet, .Integrated => 25 | .Stagenet, .SubAddress => 36
/-- the inverse lookup by the book: which (network, type) a byte denotes, if any -/
def untag (b : Nat) : Option (Net × Kind) :=
  (Net.all.flatMap fun n => Kind.all.map fun k => (n, k)).find? fun p => tag p.1 p.2 = b
end Spec
