import MoneroModel.Spec.Extra
/-! Reference *reader* of a `tx_extra` by the grammar of `Spec/Extra.lean`, written independently of the model (no
cursor, no resynchronisation): a field either occupies a known number of bytes at the start of the input or it does
not. `readAll` reads fields from offset 0 until the input is exhausted (`ok`) or a field cannot be read (`not ok`);
the fields read so far are what the property calls "the sub-fields decoded before the first failure".

Conventions taken from the format as Monero reads it:
* padding: the tag and the run of zero bytes after it, at most 255 of them; a shorter run must reach the end of the
  extra (anything else after fewer than 255 zero bytes is malformed);
* lengths / counts / depth are canonical LEB128 below `2^64` (`Spec.leb128Accept`);
* the size field of the merge-mining tag is ONE byte and is not interpreted by the reader;
* a length-prefixed field must be entirely present (so a declared length above any allocation limit cannot be read
  from an input shorter than that limit; the reference is meant for inputs below 32 MiB);
* key validity is a parameter (the driver passes the reference Ed25519 decode / re-encode test). -/
namespace Spec.Extra

/-- split `b` into `c` chunks of 32 bytes (`b` has at least `32 * c` bytes) -/
def chunks (c : Nat) (b : List UInt8) : List (List UInt8) :=
  (List.range c).map fun i => (b.drop (32 * i)).take 32

/-- the field at the start of `b` and the number of bytes it occupies -/
def readField (validKey : List UInt8 → Bool) (b : List UInt8) : Option (Field × Nat) :=
  match b with
  | [] => none
  | tag :: rest =>
    if tag = 0x00 then
      let z := (rest.takeWhile (· == 0)).length
      if z ≥ 255 then some (.padding 255, 256)
      else if z = rest.length then some (.padding z, z + 1)
      else none
    else if tag = 0x01 then
      if 32 ≤ rest.length ∧ validKey (rest.take 32) then some (.pubkey (rest.take 32), 33) else none
    else if tag = 0x02 ∨ tag = 0xDE then
      match leb128Accept rest with
      | none => none
      | some (n, k) =>
        if k + n ≤ rest.length then
          let d := (rest.drop k).take n
          some (if tag = 0x02 then .nonce d else .minergate d, 1 + k + n)
        else none
    else if tag = 0x03 then
      match rest with
      | [] => none
      | _size :: body =>
        match leb128Accept body with
        | none => none
        | some (depth, k) =>
          if k + 32 ≤ body.length then some (.mergeMining depth ((body.drop k).take 32), 2 + k + 32) else none
    else if tag = 0x04 then
      match leb128Accept rest with
      | none => none
      | some (c, k) =>
        if k + 32 * c ≤ rest.length then
          let ks := chunks c (rest.drop k)
          if ks.all validKey then some (.additional ks, 1 + k + 32 * c) else none
        else none
    else none

/-- read fields from the start; `(true, fs)` = the whole input is the field sequence `fs`; `(false, fs)` = `fs` could
be read and then a field could not -/
def readAll (validKey : List UInt8 → Bool) : Nat → List UInt8 → List Field → Bool × List Field
  | 0, b, acc => (b.isEmpty, acc.reverse)
  | fuel + 1, b, acc =>
    if b.isEmpty then (true, acc.reverse) else
    match readField validKey b with
    | none => (false, acc.reverse)
    | some (f, k) => readAll validKey fuel (b.drop k) (f :: acc)

def parse (validKey : List UInt8 → Bool) (b : List UInt8) : Bool × List Field := readAll validKey b.length b []

end Spec.Extra
