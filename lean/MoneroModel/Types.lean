/-! Enumerations shared by the generated tables (`Gen`), the model and the specification.
The translator maps Rust variant names onto these constructors; an unknown variant is an extraction failure. -/
inductive Net | Mainnet | Testnet | Stagenet deriving DecidableEq, Repr
inductive Kind | Standard | Integrated | SubAddress deriving DecidableEq, Repr
inductive Denom | Monero | Millinero | Micronero | Nanonero | Piconero deriving DecidableEq, Repr
inductive RctTy | Null | Full | Simple | Bulletproof | Bulletproof2 | Clsag | BulletproofPlus deriving DecidableEq, Repr

inductive TxInV | Gen | ToKey deriving DecidableEq, Repr
inductive TargetV | ToKey | ToTaggedKey deriving DecidableEq, Repr
inductive SubFieldV | TxPublicKey | Nonce | Padding | MergeMining | AdditionalPublickKey | MysteriousMinerGate deriving DecidableEq, Repr

def Net.all : List Net := [.Mainnet, .Testnet, .Stagenet]
def Kind.all : List Kind := [.Standard, .Integrated, .SubAddress]
def Denom.all : List Denom := [.Monero, .Millinero, .Micronero, .Nanonero, .Piconero]
def RctTy.all : List RctTy := [.Null, .Full, .Simple, .Bulletproof, .Bulletproof2, .Clsag, .BulletproofPlus]

theorem Net.mem_all (n : Net) : n ∈ Net.all := by cases n <;> decide
theorem Kind.mem_all (k : Kind) : k ∈ Kind.all := by cases k <;> decide
theorem Denom.mem_all (d : Denom) : d ∈ Denom.all := by cases d <;> decide
theorem RctTy.mem_all (t : RctTy) : t ∈ RctTy.all := by cases t <;> decide

/-- `std::mem::size_of` of the element types of explicit-length vectors, as compiled into the harness (used by the
allocation cap `len * size_of::<T>() <= MAX_VEC_MEM_ALLOC_SIZE`); regenerated on every run (Gen/Sizes.lean) -/
structure Sizes where (txin txout varint key bp bpp u8 rangesig : Nat)
