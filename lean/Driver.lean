import MoneroModel.Util.Hex
import MoneroModel.Model.Tx
import MoneroModel.Spec.Leb128
import MoneroModel.Model.Tags
import MoneroModel.Spec.Tags
import MoneroModel.Model.AmountArith
/-! Line-protocol driver: one operation per input line, one result line per operation.
Result line = `<model result>\t<spec result>` (`-` when the operation has no model / no spec side). -/
open Monero

def showOpt (o : Option (Nat × Nat)) : String :=
  match o with | none => "err" | some (n, k) => s!"ok {n} {k}"

def netOfStr : String → Option Net | "Mainnet" => some .Mainnet | "Testnet" => some .Testnet | "Stagenet" => some .Stagenet | _ => none
def kindOfStr : String → Option Kind | "Standard" => some .Standard | "Integrated" => some .Integrated | "SubAddress" => some .SubAddress | _ => none
def showNet : Net → String | .Mainnet => "Mainnet" | .Testnet => "Testnet" | .Stagenet => "Stagenet"
def showKind : Kind → String | .Standard => "Standard" | .Integrated => "Integrated" | .SubAddress => "SubAddress"
def showAddrType : Option (Kind × Bytes) → String
  | none => "err" | some (k, pid) => if k = .Integrated then s!"ok Integrated {Hex.encode pid}" else s!"ok {showKind k}"
/-- address-type lookup by the book: the first byte must be a tag of the requested network -/
def specAddrType (net : Net) (b : Bytes) : Option (Kind × Bytes) :=
  match b with
  | [] => none
  | t :: _ => match Spec.untag t.toNat with
    | some (n, k) => if n ≠ net then none else if k = .Integrated then (if b.length < 73 then none else some (k, (b.drop 65).take 8)) else some (k, [])
    | none => none

def stepTags (toks : List String) : Option (String × String) :=
  match toks with
  | ["net_tag", n, k] => do
    let n ← netOfStr n; let k ← kindOfStr k
    pure ((match asU8 n k with | some t => toString t | none => "err"), toString (Spec.tag n k))
  | ["net_of", b] => do
    let b ← b.toNat?
    pure ((match fromU8 b with | some n => "ok " ++ showNet n | none => "err"), (match Spec.untag b with | some (n, _) => "ok " ++ showNet n | none => "err"))
  | ["addrtype", n, h] => do
    let n ← netOfStr n
    let b := Hex.decode h
    pure (showAddrType (addrTypeOf n b), showAddrType (specAddrType n b))
  | _ => none

def arithOfStr : String → Option Arith | "add" => some .add | "sub" => some .sub | "mul" => some .mul | "div" => some .div | "rem" => some .rem | _ => none
def showOI : Option Int → String | none => "none" | some v => s!"some {v}"
def showRes : Res → String | .val v => s!"val {v}" | .panic => "panic"
/-- exact integer arithmetic by the book: the result iff representable and the divisor is non-zero -/
def specArith (signed : Bool) (op : Arith) (a b : Int) : Option Int :=
  let t := if signed then I64 else U64
  match op with
  | .add => t.chk (a + b) | .sub => t.chk (a - b) | .mul => t.chk (a * b)
  | .div => if b = 0 then none else t.chk (Int.tdiv a b)
  | .rem => if b = 0 then none else t.chk (Int.tmod a b)
def stepAmtArith (toks : List String) : Option (String × String) :=
  match toks with
  | [form, ty, op, a, b] => do
    let signed ← (if ty == "s" then some true else if ty == "u" then some false else none)
    let op ← arithOfStr op; let a ← a.toInt?; let b ← b.toInt?
    let sp := specArith signed op a b
    if form == "amt_chk" then
      pure ((match amtChecked signed op a b with | some r => showOI r | none => "unmodelled"), showOI sp)
    else if form == "amt_op" then
      pure ((match amtOperator signed op a b with | some r => showRes r | none => "unmodelled"), (match sp with | some v => s!"val {v}" | none => "panic"))
    else if form == "amt_asg" then
      pure ((match amtAssign signed op a b with | some r => showRes r | none => "unmodelled"), (match sp with | some v => s!"val {v}" | none => "panic"))
    else none
  | ["amt_to_signed", a] => do let a ← a.toInt?; pure (showOI (toSigned a), showOI (if a ≤ 2^63 - 1 then some a else none))
  | ["amt_to_unsigned", a] => do let a ← a.toInt?; pure (showOI (toUnsigned a), showOI (if 0 ≤ a then some a else none))
  | ["amt_possub", a, b] => do
    let a ← a.toInt?; let b ← b.toInt?
    pure ((match positiveSub a b with | some r => showOI r | none => "unmodelled"), showOI (if 0 ≤ b ∧ b ≤ a then some (a - b) else none))
  | _ => none

def step (toks : List String) : String × String :=
  match toks with
  | ["varint_dec", h] =>
    let b := Hex.decode h
    let m := match varint b with | none => "err" | some (n, r) => s!"ok {n} {b.length - r.length}"
    (m, showOpt (Spec.leb128Accept b))
  | ["varint_enc", n] =>
    match n.toNat? with
    | some k => let (bs, len) := encVarintImp k; (s!"{Hex.encode bs} {len}", s!"{Hex.encode (Spec.leb128 k)} {Spec.leb128Len k}")
    | none => ("bad-op", "bad-op")
  | _ => match (stepTags toks).orElse (fun _ => stepAmtArith toks) with
    | some r => r
    | none => ("bad-op", "bad-op")

partial def loop (h : IO.FS.Stream) (out : IO.FS.Stream) : IO Unit := do
  let line ← h.getLine
  if line.isEmpty then return ()
  let (m, s) := step (line.trimAscii.toString.splitOn " ")
  out.putStrLn (m ++ "\t" ++ s)
  loop h out

def main : IO Unit := do loop (← IO.getStdin) (← IO.getStdout)
