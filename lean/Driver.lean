import MoneroModel.Util.Hex
import MoneroModel.Model.Tx
import MoneroModel.Spec.Leb128
/-! Line-protocol driver: one operation per input line, one result line per operation.
Result line = `<model result>\t<spec result>` (`-` when the operation has no model / no spec side). -/
open Monero

def showOpt (o : Option (Nat × Nat)) : String :=
  match o with | none => "err" | some (n, k) => s!"ok {n} {k}"

def step (toks : List String) : String × String :=
  match toks with
  | ["varint_dec", h] =>
    let b := Hex.decode h
    let m := match varint b with | none => "err" | some (n, r) => s!"ok {n} {b.length - r.length}"
    (m, showOpt (Spec.leb128Accept b))
  | ["varint_enc", n] =>
    match n.toNat? with
    | some k => let (bs, len) := encVarintImp k; (s!"{Hex.encode bs} {len}", s!"{Hex.encode (Spec.leb128 k)} {Spec.leb128Len k}")
    | none => ("bad-op", "bad-op")
  | _ => ("bad-op", "bad-op")

partial def loop (h : IO.FS.Stream) (out : IO.FS.Stream) : IO Unit := do
  let line ← h.getLine
  if line.isEmpty then return ()
  let (m, s) := step (line.trimAscii.toString.splitOn " ")
  out.putStrLn (m ++ "\t" ++ s)
  loop h out

def main : IO Unit := do loop (← IO.getStdin) (← IO.getStdout)
