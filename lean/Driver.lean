import MoneroModel.Drv.C14
import MoneroModel.Drv.C18
import MoneroModel.Drv.C20
import MoneroModel.Drv.Codec
import MoneroModel.Drv.C06
import MoneroModel.Drv.C03
import MoneroModel.Drv.C15
import MoneroModel.Drv.C16
import MoneroModel.Drv.C12
import MoneroModel.Drv.C13
import MoneroModel.Drv.C17
import MoneroModel.Drv.C07
import MoneroModel.Drv.C10
import MoneroModel.Drv.C19
import MoneroModel.Drv.C04
/-! Line-protocol driver: one operation per input line, one result line per operation.
Result line = `<model result>\t<spec result>` (`-` when the operation has no model / no spec side).
Each property contributes a step function in `MoneroModel/Drv/Cxx.lean`. -/

def steps : List Step := [Drv.stepC14, Drv.stepC18, Drv.stepC20, Drv.stepCodec, Drv.stepC06, Drv.stepC03, Drv.stepC15, Drv.stepC16, Drv.stepC12, Drv.stepC13, Drv.stepC17, Drv.stepC07, Drv.stepC10, Drv.stepC19, Drv.stepC04]

def step (toks : List String) : String × String :=
  match steps.findSome? (fun f => f toks) with
  | some r => r
  | none => ("bad-op", "bad-op")

partial def loop (h : IO.FS.Stream) (out : IO.FS.Stream) : IO Unit := do
  let line ← h.getLine
  if line.isEmpty then return ()
  let (m, s) := step (line.trimAscii.toString.splitOn " ")
  out.putStrLn (m ++ "\t" ++ s)
  loop h out

def main : IO Unit := do loop (← IO.getStdin) (← IO.getStdout)
